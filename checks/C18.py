"""C18: writer/reader pairs of the on-disk and on-wire formats round-trip."""
import os
import vlib
import gen_stream as gs

HARNESS = {"zz_verif_test.go": os.path.join(vlib.ROOT, "harness", "outputstream", "zz_verif_test.go"),
           "zz_verif_stream_test.go": os.path.join(vlib.ROOT, "harness", "outputstream", "zz_verif_stream_test.go")}

UTF8 = ["", "NICK alice", "PRIVMSG #c :grüße ☃ \U0001F600", "x" * 700, "a\x00b\r\nc", "  <>&", "10.0.0.1:1234"]


def gen_msg(rng):
    big = rng.random() < 0.3
    u = lambda: rng.choice([0, 1, 2, 2**32, 2**63, 2**64 - 1]) if big else rng.choice([0, 1, 5, 77, 123456789])
    idx = rng.choice([1, 7, 2**40])
    data = rng.choice(UTF8) if rng.random() < 0.8 else "".join(chr(rng.choice([65, 0xe4, 0x2603, 0x1F600, 10, 34, 92])) for _ in range(rng.randrange(0, 50)))
    servers = [rng.choice(UTF8[1:]) for _ in range(rng.choice([0, 0, 1, 3]))]
    un = rng.choice([0, 1, -1, 2**63 - 1, -2**63, 1432323893000000000])
    f = ["msg", str(idx), str(rng.choice([0, 0, u()])), str(u()), str(u()), str(u()), str(rng.randrange(0, 9)), gs.hexs(data.encode()), str(un),
         str(len(servers))] + [gs.hexs(s.encode()) for s in servers] + [gs.hexs(rng.choice(UTF8).encode()), str(u()), str(u()), gs.hexs(rng.choice(UTF8).encode())]
    return " ".join(f)


def chain_programs(rng, n):
    progs = []
    for _ in range(n):
        p, mid = ["reset"], 0
        for _ in range(rng.choice([2, 3, 5, 8])):
            mid += rng.choice([1, 1, 2, 255, 256, 65537, 2**40, 2**56 + 3])
            p.append("add " + gs.spec(gs.gen_msgs(rng, mid)))
            if rng.random() < 0.3:
                p.append("dump")
        p.append("dump")
        progs.append(p)
    return progs


def judge_chain(prog, outs):
    """after adds only: every stored batch names its successor, the last one 2^64-1 (as the real decoder reads it)"""
    ids = [0] + [int(o.split()[3]) for o in prog if o.startswith("add ")]
    seen = 1
    for o, g in zip(prog, outs):
        if o.startswith("add "):
            seen += 1
        if o == "dump":
            want = " ".join("%d:%d" % (a, b) for a, b in zip(ids[:seen], ids[1:seen] + [gs.U64]))
            got = g.split(" | ")[0]
            if got != want:
                return "after %d Adds the database holds (id:NextID) %s, the chain written is %s" % (seen - 1, got[:200], want[:200])
    return None


def chain_stage(run, exe):
    progs = chain_programs(run.rng, 40 if run.tier == "quick" else 1500)
    ops = [o for p in progs for o in p]
    d = vlib.workdir("c18chain")
    gl, ll, di, err = vlib.differential(run, "chain", ops, exe, "stream", env_extra={"VERIF_TMP": d})
    import shutil
    shutil.rmtree(d, ignore_errors=True)
    ok = di is None and err is None and len(gl) == len(ops)
    bad, bops, pos = None, [], 0
    for p in progs:
        g = gl[pos:pos + len(p)]
        pos += len(p)
        if len(g) == len(p) and bad is None:
            b = judge_chain(p, g)
            if b:
                bad, bops = b, p
    run.obligation("stored chain: %d Add sequences written to LevelDB and read back by the decoder (id:NextID of every stored batch) == Lean model == the chain written" % len(progs),
                   ok and bad is None, err or bad or ("first difference at `%s`: go=%s lean=%s" % (ops[di][:80], gl[di][:120] if di < len(gl) else "<missing>", ll[di][:120] if di < len(ll) else "<missing>") if di is not None else ""))
    return bad, bops, len(ops)


def check(run):
    n = 1500 if run.tier == "quick" else 60000
    proved = run.prove()
    ok, exe, out = vlib.build_harness("outputstream", "internal/outputstream", HARNESS)
    run.obligation("go harness builds from /repo (internal/outputstream)", ok, out)
    if not ok:
        run.violation("broken:harness-build", "the Go harness no longer builds against /repo", {"log": out[-2000:]}, False)
        return run.finish()
    rng = run.rng
    batches = [gs.gen_msgs(rng, rng.choice([1, 5, 2**40, gs.U64 - 1]), n=rng.choice([0, 1, 1, 2, 3, 8]), big=True) for _ in range(n)]
    nexts = [rng.choice([gs.U64, 0, 7, 2**63]) for _ in batches]
    # phase 1 (Go only): the bytes the implementation writes
    d = vlib.workdir("c18")
    p1 = os.path.join(d, "p1.txt")
    open(p1, "w").write("\n".join("enchex " + gs.spec(b, nx) for b, nx in zip(batches, nexts)) + "\n")
    rc, o = vlib.run_harness(exe, p1, os.path.join(d, "p1.out"), env_extra={"VERIF_TMP": d})
    gohex = vlib.read_lines(os.path.join(d, "p1.out"))
    run.obligation("go harness phase 1 ran", rc == 0 and len(gohex) == len(batches), o[-1000:])
    # phase 2 (both): decode Go's bytes, truncations of them, own round trip, byte-exact encodings, message round trips
    ops, expect = [], []
    for b, nx, hx in zip(batches, nexts, gohex):
        want = "next=%d msgs=%s" % (nx, gs.canon_msgs(b))
        ops.append("dec " + hx); expect.append(want)
        ops.append("encdec " + gs.spec(b, nx)); expect.append(want)
        if all(len(m[3]) <= 1 for m in b):
            ops.append("encbytes " + gs.spec(b, nx)); expect.append(hx)
        if hx != "-" and rng.random() < 0.5:
            cut = rng.randrange(0, len(hx) // 2) * 2
            ops.append("dec " + (hx[:cut] or "-")); expect.append(None)
    nmsg = n
    for _ in range(nmsg):
        ops.append(gen_msg(rng)); expect.append(None)
    gl, ll, di, err = vlib.differential(run, "codec", ops, exe, "codec", env_extra={"VERIF_TMP": d})
    # the Lean driver has no `msg` op: expected output is computed from the model's definition (fromBytes = withDefaultId)
    import shutil
    shutil.rmtree(d, ignore_errors=True)
    bad = None
    nontrivial = set()
    for i, (op, g, e) in enumerate(zip(ops, gl, expect)):
        if op.startswith("msg "):
            f = op.split()
            idx, mid = int(f[1]), int(f[2])
            ns = int(f[9])
            canon = "%d.%s/%s.%s/t%s/%s/%s/[%s]/%s/%s/%s/%s" % (mid if mid != 0 else idx, f[3], f[4], f[5], f[6], f[7], f[8], ",".join(f[10:10 + ns]), f[10 + ns], f[11 + ns], f[12 + ns], f[13 + ns])
            want = "pb=%s copy=%s same=1 json=%s" % (canon, canon, canon)
            if g != want and bad is None:
                bad = (i, "message round trip: got %s want %s" % (g, want))
            nontrivial.add(op)
            continue
        l = ll[i] if i < len(ll) else "<missing>"
        if g != l and bad is None:
            bad = (i, "go=%s lean=%s" % (g, l))
        if e is not None and g != e and bad is None:
            bad = (i, "implementation decodes to %s, written was %s" % (g, e))
        if e is None and op.startswith("dec") and g != "panic":
            # a strict prefix of a valid encoding must never decode to something
            if bad is None and l == "panic":
                bad = (i, "truncated buffer decoded by the implementation: " + g)
        nontrivial.add(op)
    corr_ok = bad is None and err is None and len(gl) == len(ops)
    run.obligation("correspondence: Go codecs == Lean model and == what was written, on %d ops" % len(ops), corr_ok, err or (bad[1] if bad else ""))
    # the stored chain: what Add writes to the database (the new batch and the re-written NextID of its predecessor) read
    # back by the decoder — a writer/reader pair that only exists on the Add path
    cbad, cops, cn = chain_stage(run, exe)
    # the raft log store's writer/reader pairs (JSON and protobuf envelopes, both readers, ConvertToProto on mixed stores)
    import C09
    sok, scorr, sbad, sops, sdi, _ = C09.store_stage(run, 40 if run.tier == "quick" else 800, 30, 0, "raft log entries: writers (StoreLogs, StoreLogProto, ConvertToProto on mixed JSON/protobuf stores) x readers (GetLog, raw)")
    if bad is not None:
        i, why = bad
        run.violation("roundtrip:" + ops[i].split()[0], why, {"kind": "codec", "op": ops[i], "go": gl[i] if i < len(gl) else None, "why": why}, True)
    elif cbad is not None:
        run.violation("roundtrip:chain", cbad, {"kind": "chain", "ops": cops, "why": cbad}, True)
        corr_ok = False
    elif sbad is not None:
        run.violation("roundtrip:store:" + sbad[0].split(" ")[0], sbad[0], {"kind": "store", "ops": sbad[1], "why": sbad[0]}, True)
        corr_ok = False
    elif sok and not scorr:
        run.violation("broken:store-correspondence", "the raft log store's codecs no longer behave like the model", {"kind": "store", "ops": sops[:sdi + 1][-40:] if sdi is not None else []}, False)
        corr_ok = False
    elif not proved or not corr_ok:
        failed = [o[0] for o in run.failed_obligations()]
        run.violation("broken:" + (failed[0] if failed else "?")[:40], "proof or correspondence no longer checks: %s" % failed, {"broken": failed, "detail": [o[2][-1500:] for o in run.failed_obligations()]}, False)
    run.samples = [{"op": ops[i][:300], "go": gl[i][:300] if i < len(gl) else None} for i in (0, 1, len(ops) - 1)]
    run.coverage.update({"evaluations": len(ops), "distinct_nontrivial": len(nontrivial), "traces_validated_against_impl": len(ops) if corr_ok else 0,
                         "batches": len(batches), "messages_roundtripped": nmsg})
    run.assumptions += ["proto.Marshal/Unmarshal and encoding/json round-trip every field they are given (validated by the differential run on real codecs, not proved)",
                        "message types are within the enum range 0..8 (int64 -> int32 conversion)", "text is valid UTF-8 (guaranteed by JSON decoding / proto3 string on the real path)"]
    return run.finish(rule="random batches (0..8 messages, 0..6 recipients incl. 2^64-1, arbitrary bytes) cross-decoded between Go and Lean, truncated prefixes, byte-exact encodings for ≤1 recipient; random robust.Message values through both protobuf encoders and legacy JSON; distinct by op text")


def replay(run, path):
    import json
    r = json.load(open(path))
    op = r.get("replay", {}).get("op")
    ok, exe, out = vlib.build_harness("outputstream", "internal/outputstream", HARNESS)
    if r.get("replay", {}).get("kind") == "store":
        import C09
        return C09.replay(run, path)
    if r.get("replay", {}).get("kind") == "chain":
        ops = r["replay"]["ops"]
        d = vlib.workdir("c18chainr")
        gl, ll, di, err = vlib.differential(run, "replay", ops, exe, "stream", env_extra={"VERIF_TMP": d})
        for o, g in zip(ops, gl):
            print(o[:60], "->", g[:200])
        b = judge_chain(ops, gl)
        print("oracle:", b)
        return 1 if b else 0
    gl, ll, di, err = vlib.differential(run, "replay", [op], exe, "codec")
    print("op:  ", op, "\ngo:  ", gl, "\nlean:", ll)
    return 0 if di is None else 1
