"""C17: only dead sessions are reported dead, only idle ones expire."""
import re
import irc_check
import irc_run
import gen_irc
import vlib
import api_run
from api_run import hx, PW, kv


def with_lookups(rng, h):
    """insert session lookups (G) after random entries: every id created so far, ids in between, ids beyond"""
    out, created, maxid = [], [], 0
    for op in h:
        out.append(op)
        f = op.split()
        if f[0] == "E":
            maxid = max(maxid, int(f[2]))
            if f[1] == "0":
                created.append(int(f[2]))
            ends = f[1] == "1" or (f[1] == "2" and irc_check.txt(op).upper().startswith(("QUIT", "KILL", "GLINE")))
            if ends:
                out.append("D")      # judged by the end-of-session rule below
            if rng.random() < 0.25:
                out.append("D")
                for q in set(created[-4:] + [rng.randrange(0, maxid + 2), maxid, maxid + 1, maxid + 50]):
                    out.append("G %d 0" % q)
    return out


def oracle(h, g, l):
    stored, maxid = set(), 0
    for j, (op, go) in enumerate(zip(h, g)):
        f = op.split()
        if f[0] == "R":
            stored, maxid = set(), 0
        elif f[0] == "E":
            maxid = max(maxid, int(f[2]))
            if go.startswith("panic"):
                return None
        elif f[0] == "D":
            stored = set(int(x.split(".")[0]) for x in re.findall(r"S (\d+\.0) ", go))
            # after a session has ended its nickname is free and it has left all channels: in the node's own
            # state no nickname may be owned by, and no channel may list, somebody who is not a stored session
            allsess = set(re.findall(r"S (\d+\.\d+) ", go))
            m = re.search(r"NI=(\S*)", go)
            owned = {}
            for ent in (m.group(1).split(",") if m and m.group(1) else []):
                n, _, sid = ent.partition(":")
                owned[n] = sid
                if sid not in allsess:
                    return j, "ended:nick-still-taken", "nickname %r is still owned by session %s, which is no longer stored" % (bytes.fromhex(n).decode("utf-8", "replace") if n != "-" else "", sid)
            for cm in re.finditer(r"C (\S+) .*? N=(\S*)", go):
                for mem in (cm.group(2).split(",") if cm.group(2) else []):
                    n = mem.split(":")[0]
                    if n not in owned:
                        return j, "ended:still-member", "channel %s lists %r, which is nobody's nickname (a session that ended was not removed)" % (
                            bytes.fromhex(cm.group(1)).decode("utf-8", "replace"), bytes.fromhex(n).decode("utf-8", "replace") if n != "-" else "")
        elif f[0] == "G":
            q = int(f[1])
            if go == "found" and q not in stored:
                return j, "lookup:ghost", "session %d reported as found but it is not stored" % q
            if q in stored and go != "found":
                return j, "lookup:live-reported-dead", "live session %d reported as %s" % (q, go)
            if go == "nosuch" and not (q < maxid):
                return j, "lookup:nosuch-future", "session %d reported as gone although the node has applied nothing newer (max applied id %d)" % (q, maxid)
            if q > maxid and go != "notyet":
                return j, "lookup:future", "id %d is newer than anything applied (%d) but reported as %s" % (q, maxid, go)
    return None


def expire_scenario(exe):
    """real clock: expiration 2 s; A idle 2.6 s, B idle 1.1 s, a services pseudo-client idle 2.6 s"""
    ops = ["start", "postconfig %s 0 %s" % (PW, hx('PostMessageCooloff = "0s"\nSessionExpiration = "2s"\n[IRC]\n[[IRC.Services]]\nPassword = "svcpw"\n')),
           "create a", "create s", "post s ok 1 " + hx("PASS services=svcpw"), "post s ok 2 " + hx("SERVER services.localhost.net 1 :Services"),
           "post s ok 3 " + hx("NICK ChanServ 1 1 services localhost.net services.localhost.net 0 :ChanServ"), "post a ok 1 " + hx("NICK alice"),
           "sleep 1500", "create b", "post b ok 1 " + hx("NICK bob"), "expire", "sleep 1100", "creds a", "creds b", "creds s", "expire apply", "getsession_a", "expire"]
    return ops


def check(run):
    # part 1: lookups on lagging prefixes (every prefix of a history is a possible lag)
    n, L = (200, 100) if run.tier == "quick" else (5000, 250)
    commands = None

    def gen_kwargs():
        return {}
    # reuse the generic driver with histories that carry G ops
    orig = gen_irc.gen_histories

    def patched(rng, commands, n, length, focus=None):
        hs, kinds = orig(rng, commands, n, length, focus=focus)
        return [with_lookups(rng, h) for h in hs], kinds
    gen_irc.gen_histories = patched
    try:
        # part 2 first (needs the api harness), recorded as an obligation of the same run
        ok, exe, out = api_run.build()
        exp_bad = None
        if ok:
            ops = [o for o in expire_scenario(exe) if o != "getsession_a"]
            gl, err = api_run.run_ops(exe, ops, tag="c17")
            if err or len(gl) != len(ops):
                exp_bad = ("harness", err or "short output", ops)
            else:
                ids = {}
                for o, g in zip(ops, gl):
                    if o.startswith("creds ") and " " in g:
                        ids[o.split()[1]] = str(int(g.split(" ")[0], 0))
                first, second, third = [g for o, g in zip(ops, gl) if o.startswith("expire")]
                want1 = ""                      # after 1.5 s nobody is older than 2 s
                want2 = ids.get("a", "?") + ".0"   # after 2.6 s: a (2.6 s) yes, b (1.1 s) no, s active 2.6 s ago too
                got2 = set(x for x in second[len("expire "):].split(",") if x)
                if first != "expire " + want1:
                    exp_bad = ("expire-early", "sessions idle for 1.5 s were proposed for deletion with a 2 s expiration: %s" % first, ops)
                elif ids.get("a", "?") + ".0" not in got2 or ids.get("b", "?") + ".0" in got2:
                    exp_bad = ("expire-set", "expiry sweep proposed %s; expected a (idle 2.6 s) and not b (idle 1.1 s), expiration 2 s" % sorted(got2), ops)
                elif any(not x.endswith(".0") for x in got2):
                    exp_bad = ("expire-pseudo", "expiry sweep proposed a services pseudo-client: %s" % sorted(got2), ops)
                elif ids.get("a", "?") + ".0" in third:
                    exp_bad = ("expire-again", "an expired and deleted session is proposed again: %s" % third, ops)
        # part 3: what the HTTP API tells a client: "not yet seen" must stay distinguishable from "no such session"
        # (a client that is told 404 gives the session up; on a lagging node the session may simply not be applied yet)
        if ok and exp_bad is None:
            ops3 = list(api_run.BOOT) + ["create a", "create d", "post d ok 1 " + api_run.hx("NICK dora"), "delete d ok " + api_run.hx("gone"),
                                          "get 0x7777777 wrong 0.0", "get 0x7777777 other:a 0.0", "get d wrong 0.0", "get 0x1 wrong 0.0", "get a ok 0.0"]
            gl3, err3 = api_run.run_ops(exe, ops3, tag="c17b")
            if err3 or len(gl3) != len(ops3):
                exp_bad = ("harness", err3 or "short output", ops3)
            else:
                st = [api_run.kv(g).get("status") for g in gl3[-5:]]
                if st[0] == "404" or st[1] == "404":
                    exp_bad = ("notyet-404", "GET for a session id beyond the last applied entry (may exist on the leader already) was answered 404 `no such session` (%s, %s); the client gives the session up" % (st[0], st[1]), ops3)
                elif st[0] == "200" or st[1] == "200":
                    exp_bad = ("notyet-200", "GET for a session id beyond the last applied entry was answered 200", ops3)
                elif st[3] != "404":
                    exp_bad = ("nosuch", "GET for an id below the last applied entry that never was a session was answered %s (expected 404)" % st[3], ops3)
                elif st[4] != "200":
                    exp_bad = ("found", "GET for a live session with its secret was answered %s" % st[4], ops3)
        run.api_exp = exp_bad
        return irc_check.run_property(run, oracle, n, L,
            rule="(a) histories with session lookups after random prefixes (= lags): ids created so far, ids in between, ids beyond the last applied entry; oracle: live => found, nosuch only below the last applied id, future ids => notyet; (b) real-clock expiry sweep with sessions idle 2.6 s / 1.1 s and a services pseudo-client at a 2 s expiration; non-trivial = history > 5 ops",
            extra_histories=None)
    finally:
        gen_irc.gen_histories = orig


def replay(run, path):
    return irc_check.replay(run, path, oracle)
