"""C02: compaction, snapshot and restore never change the replicated state."""
import os
import shutil
import vlib
import irc_run

FILES = dict(irc_run.MAIN_FILES)
FILES["zz_verif_fsm_test.go"] = os.path.join(vlib.ROOT, "harness", "main", "zz_verif_fsm_test.go")
T0 = 1700000000 * 10**9
S = 10**9


def gen_program(rng, length):
    ops = ["reset", "status"]
    idx = 0
    ts = T0
    exp = 600
    kinds = ["c", "n", "u", "j"]
    horizon = None
    entries = {}
    skew = rng.random() < 0.5
    for _ in range(length):
        r = rng.random()
        if r < 0.55:
            idx += 1
            if rng.random() < 0.12:
                ops.append("commit %d %d r" % (idx, ts))      # raft-internal entry: index gap for the FSM
                continue
            ts += rng.choice([1, 5, 60, 300, 700, 2000]) * S
            ets = ts
            if skew and rng.random() < 0.2:
                # timestamps are assigned by whichever node is leader: not monotonic across leader changes
                ets = ts - rng.choice([1, 30, 400, 700, 2500]) * S
            k = kinds.pop(0) if kinds else rng.choice(["p", "p", "p", "g", "g", "n", "j", "c", "d", "x1800", "x60", "x0", "x600"])
            if k == "c" and not kinds:
                kinds = ["n", "u", "j"]
            ops.append("commit %d %d %s" % (idx, ets, k))
            entries[idx] = ets
        elif r < 0.75:
            # compaction time: somewhere around the recent entries, sometimes far in the future (everything old)
            now = ts + rng.choice([0, 5, 11, 100, 605, 615, 1000, 1805, 1815, 5000, 100000]) * S
            ops.append("snapshot %d" % now)
            if rng.random() < 0.75:
                ops.append("status")
                ops.append(rng.choice(["persist", "persist", "persist", "persistfail"]))
        elif r < 0.82:
            ops.append("persist")
        elif r < 0.90:
            ops.append("restore")
        else:
            ops.append("restart")
        ops.append("status")
    ops += ["restart", "status", "snapshot %d" % (ts + 100000 * S), "status", "persist", "restart", "status"]
    return ops


REGRESSION = [
    # fixed: a snapshot that compacts every stored entry, then new entries, snapshot, restart -> state lost
    ["reset", "commit 1 %d c" % (T0 + S), "commit 2 %d n" % (T0 + 2 * S), "commit 3 %d u" % (T0 + 3 * S), "commit 4 %d j" % (T0 + 4 * S), "commit 5 %d p" % (T0 + 5 * S),
     "snapshot %d" % (T0 + 5000 * S), "status", "persist", "commit 6 %d p" % (T0 + 6000 * S), "status", "snapshot %d" % (T0 + 6001 * S), "status", "persist", "restart", "status"],
    # same with an index gap (raft-internal entry) after the compacted range
    ["reset", "commit 1 %d c" % (T0 + S), "commit 2 %d n" % (T0 + 2 * S), "commit 3 %d u" % (T0 + 3 * S), "snapshot %d" % (T0 + 5000 * S), "persist", "commit 4 %d r" % (T0 + 5000 * S),
     "commit 5 %d j" % (T0 + 6000 * S), "snapshot %d" % (T0 + 6001 * S), "status", "persist", "restore", "status", "restart", "status"],
    # fixed: expiration 30 min in the config, restart, compaction 20 min later must keep the entries
    ["reset", "commit 1 %d x1800" % (T0 + S), "commit 2 %d c" % (T0 + 2 * S), "commit 3 %d n" % (T0 + 3 * S), "commit 4 %d u" % (T0 + 4 * S), "snapshot %d" % (T0 + 5 * S), "persist",
     "restart", "status", "snapshot %d" % (T0 + 1200 * S), "status"],
]


def oracle(ops, outs):
    """state == plain replay after every step; nothing folded is retained in the output store;
    an entry leaves the node's log copy only if it is older than a compaction horizon that was in force"""
    ts, maxhor, exp = {}, None, 600
    for i, (op, out) in enumerate(zip(ops, outs)):
        f = op.split()
        if f[0] == "reset":
            ts, maxhor = {}, None
        elif f[0] == "commit" and f[3] != "r":
            ts[int(f[1])] = int(f[2])
        elif f[0] == "snapshot" and out.startswith("ok"):
            pass
        if out.startswith("panic") or out.startswith("error ") or out == "unexpected-success":
            return i, "op:" + f[0], "`%s` -> %s" % (op, out[:200])
        if f[0] == "status":
            kv = dict(p.split("=", 1) for p in out.split(" "))
            if kv.get("same") != "1":
                return i, "state", "after `%s` the IRC state differs from a plain replay of the committed log" % ops[i - 1]
            irc = set(int(x) for x in kv["irc"].split(",") if x)
            outp = set(int(x) for x in kv["out"].split(",") if x)
            if not outp <= irc:
                return i, "output", "output kept for compacted inputs %s after `%s`" % (sorted(outp - irc), ops[i - 1])
    return None


def check(run):
    nprog, plen = (120, 40) if run.tier == "quick" else (3000, 80)
    proved = run.prove()
    ok, exe, out = vlib.build_harness("fsm", "", FILES, extra_overlay=irc_run.EXTRA)
    run.obligation("go harness builds from /repo (package main)", ok, out)
    if not ok:
        run.violation("broken:harness-build", "the Go harness no longer builds against /repo", {"log": out[-2000:]}, False)
        return run.finish()
    progs = [list(p) + ["status"] for p in REGRESSION] + [gen_program(run.rng, run.rng.randrange(8, plen)) for _ in range(nprog)]
    ops = [o for p in progs for o in p]
    d = vlib.workdir("c02")
    gl, ll, di, err = vlib.differential(run, "fsm", ops, exe, "fsm", env_extra={"VERIF_TMP": d, "TMPDIR": d}, harness_run="TestVerifFsm", timeout=1200)
    shutil.rmtree(d, ignore_errors=True)
    # which entries produce output is a property of the IRC layer, not of the bookkeeping: the Go side
    # reports it per commit (`ok 1` / `ok 0`); the model's output set is restricted to those ids
    has_out = set()
    for j, (o, g) in enumerate(zip(ops, gl)):
        f = o.split()
        if f[0] == "reset":
            has_out = set()
        if f[0] == "commit" and g.startswith("ok"):
            if g == "ok 1":
                has_out.add(f[1])
            gl[j] = "ok"
        if f[0] == "status" and j < len(ll) and " out=" in ll[j]:
            parts = ll[j].split(" ")
            parts[1] = "out=" + ",".join(x for x in parts[1][4:].split(",") if x in has_out)
            ll[j] = " ".join(parts)
    di = vlib.first_diff(gl, ll)
    corr_ok = di is None and err is None and len(gl) == len(ops)
    run.obligation("correspondence: real FSM + LevelDB + snapshot store == Lean bookkeeping model on %d log/schedule pairs (%d ops)" % (len(progs), len(ops)), corr_ok,
                   err or ("first difference at op %s `%s`: go=%s lean=%s" % (di, ops[di] if di is not None and di < len(ops) else "", gl[di][:200] if di is not None and di < len(gl) else "<missing>", ll[di][:200] if di is not None and di < len(ll) else "<missing>")))
    bad = oracle(ops, gl)
    if bad is not None:
        i, sig, why = bad
        start = max(j for j in range(i + 1) if ops[j] == "reset")
        run.violation("oracle:" + sig, why, {"kind": "fsm", "ops": ops[start:i + 1], "why": why}, True)
    elif not proved or not corr_ok:
        failed = [o[0] for o in run.failed_obligations()]
        rep = {"broken": failed, "detail": [o[2][-1500:] for o in run.failed_obligations()]}
        if di is not None:
            start = max(j for j in range(min(di, len(ops) - 1) + 1) if ops[j] == "reset")
            rep["ops"] = ops[start:di + 1]
        run.violation("broken:" + (failed[0] if failed else "?")[:40], "proof or correspondence no longer checks: %s" % failed, rep, False)
    kinds = {}
    for o in ops:
        kinds[o.split()[0]] = kinds.get(o.split()[0], 0) + 1
    run.samples = [{"program": progs[len(REGRESSION)][:16]}, {"program": REGRESSION[0]}]
    run.coverage.update({"evaluations": len(ops), "distinct_nontrivial": len(set(tuple(p) for p in progs if len(p) > 6)), "traces_validated_against_impl": len(progs) if corr_ok else 0, "op_kinds": kinds})
    run.assumptions += ["hashicorp/raft: committed entries are applied in order; on restart the newest snapshot is restored and the log after its index replayed",
                        "LevelDB and the file snapshot store are durable across process restarts", "the IRC state is a function of the applied entries (C01) and serialization is invisible (C03): the model uses the free interpretation"]
    return run.finish(rule="random logs (index gaps from raft-internal entries, config entries changing SessionExpiration, timestamp deltas 1s..2000s) x random schedules of Snapshot(now)/Persist/failing sink/Restore/restart; oracle: state dump == dump of a plain replay after every step, output store subset of retained entries; non-trivial = program > 6 ops; distinct by op list")


def replay(run, path):
    import json
    r = json.load(open(path))
    ops = r.get("replay", {}).get("ops", [])
    ok, exe, out = vlib.build_harness("fsm", "", FILES, extra_overlay=irc_run.EXTRA)
    d = vlib.workdir("c02r")
    gl, ll, di, err = vlib.differential(run, "replay", ops, exe, "fsm", env_extra={"VERIF_TMP": d, "TMPDIR": d}, harness_run="TestVerifFsm")
    shutil.rmtree(d, ignore_errors=True)
    for o, g, l in zip(ops, gl, ll):
        print("%-40s go=%s\n%40s lean=%s" % (o[:40], g[:120], "", l[:120]))
    b = oracle(ops, gl)
    print("oracle:", b, "diff:", di, err)
    return 1 if b or di is not None else 0
