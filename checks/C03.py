"""C03: state serialization is complete — save + load is invisible."""
import re
import vlib
import irc_run
import irc_check
import gen_irc


def with_cuts(rng, h):
    out = []
    for op in h:
        out.append(op)
        if op.startswith("E") and rng.random() < 0.06:
            out.append("M")
            if rng.random() < 0.5:
                out.append("D")
    return out


def mask_dump(line):
    # serverSessions keeps ids of deleted services links on a node that never restored; they are not live sessions
    return re.sub(r" \| SS=[0-9,]*", " | SS=*", line)


def check(run):
    n, L = (250, 120) if run.tier == "quick" else (6000, 300)
    proved = run.prove()
    ok, exe, out = irc_run.build()
    run.obligation("go harness builds from /repo (package main + internal/ircserver overlay)", ok, out)
    if not ok:
        run.violation("broken:harness-build", "the Go harness no longer builds against /repo", {"log": out[-2000:]}, False)
        return run.finish()
    hs0, kinds = gen_irc.gen_histories(run.rng, run.facts.get("commands", []), n, L)
    hs = [with_cuts(run.rng, h) for h in hs0]
    ops = [o for h in hs for o in h]
    ops_nocut = [("NOP" if o == "M" else o) for o in ops]
    import os
    os.environ["VERIF_LIVE_RCPT"] = "1"
    try:
        ga, ea = irc_run.run_go(exe, ops, tag="c03-a")
        gb, eb = irc_run.run_go(exe, ops_nocut, tag="c03-b")
    finally:
        del os.environ["VERIF_LIVE_RCPT"]
    gc, ec = irc_run.run_go(exe, ops, tag="c03-c")
    ll, lerr = irc_run.run_lean(ops, tag="c03")
    # the model reports at every cut whether the executable hypotheses of C03_state (canonB, invB) hold there
    hyp_bad = [l for l in ll if l.startswith("ok hyp ")]
    ncuts_model = sum(1 for l in ll if l == "ok" or l.startswith("ok hyp "))
    ll = ["ok" if l.startswith("ok hyp ") else l for l in ll]
    res = irc_run.compare(hs, gc, ll)
    mism = [(h, r) for h, r in zip(hs, res) if r["mismatch"]]
    corr_ok = not mism and not ec and not lerr
    d1 = ""
    if mism:
        j, op, g, l = mism[0][1]["mismatch"]
        d1 = "history op %d %r: %s" % (j, irc_check.txt(op)[:60] or op, irc_run.explain_diff(g, l))
    run.obligation("correspondence: real Marshal/Unmarshal + continuation == Lean saveLoad model (%d ops compared, %d cuts)" % (sum(r["compared"] for r in res), ops.count("M")), corr_ok, ec or lerr or d1)
    run.obligation("hypotheses of C03_state/C03_inv (Inv, Canon: executable forms) hold at every cut reached in the model (%d cuts)" % ncuts_model, not hyp_bad, "; ".join(hyp_bad[:3]))
    # the property itself, on the real code: the run with cuts and the run without must be indistinguishable
    bad = None
    pos = 0
    for h in hs:
        a, b = ga[pos:pos + len(h)], gb[pos:pos + len(h)]
        for j, (op, x, y) in enumerate(zip(h, a, b)):
            if op == "M":
                continue
            if x.startswith("panic") or y.startswith("panic"):
                if x.startswith("panic") != y.startswith("panic") and bad is None:
                    bad = (h, j, x, y)
                break
            xx, yy = (mask_dump(x), mask_dump(y)) if op == "D" else (x, y)
            if xx != yy:
                if bad is None:
                    bad = (h, j, xx, yy)
                break
        pos += len(h)
    run.obligation("real code: %d histories with %d save+load cuts produce the same output for live sessions and the same state dumps as without the cuts" % (len(hs), ops.count("M")),
                   bad is None and not ea and not eb, ea or eb or ("%r: %s" % (irc_check.txt(bad[0][bad[1]])[:60] or bad[0][bad[1]], irc_run.explain_diff(bad[2], bad[3])) if bad else ""))
    if bad is not None:
        h, j, x, y = bad
        cut = max(i for i in range(j + 1) if h[i] == "M") if "M" in h[:j + 1] else 0
        run.violation("saveload:" + ("dump" if h[j] == "D" else (irc_check.txt(h[j]).split(" ")[0] or "?")[:16].upper()), "after a save+load cut the node behaves differently at %r: %s" % (irc_check.txt(h[j])[:80] or h[j], irc_run.explain_diff(x, y)),
                      {"kind": "irc", "ops": h[:j + 1], "readable": [irc_check.txt(o) or o for o in h[max(0, cut - 6):j + 1]], "with_cut": x[:500], "without_cut": y[:500]}, True)
    elif not proved or not corr_ok:
        failed = [o[0] for o in run.failed_obligations()]
        run.violation("broken:" + (failed[0] if failed else "?")[:40], "proof or correspondence no longer checks: %s" % failed, {"broken": failed, "detail": [o[2][-1500:] for o in run.failed_obligations()]}, False)
    run.samples = [{"history_excerpt": [irc_check.txt(o) or o for o in hs[2][:16]]}]
    run.coverage.update({"evaluations": len(ops) * 3, "distinct_nontrivial": len(set(tuple(h) for h in hs if "M" in h)), "traces_validated_against_impl": len(hs) if corr_ok else 0,
                         "cuts": ops.count("M"), "entry_kinds": kinds})
    run.assumptions += ["the protobuf wire codec round-trips the decoded snapshot (C18)", "ids of deleted services links that linger in serverSessions are not live sessions: masked"]
    return run.finish(rule="random histories with Marshal->Unmarshal-into-a-fresh-instance cuts after random entries (sessions without nick, not logged in, operators, services links with pseudo-clients, holds, bans, invitations, config changes); every later output (restricted to live recipients) and every state dump is compared with the same history without cuts; non-trivial = history with at least one cut")


def replay(run, path):
    import json
    r = json.load(open(path))
    ops = r.get("replay", {}).get("ops", [])
    ok, exe, out = irc_run.build()
    import os
    os.environ["VERIF_LIVE_RCPT"] = "1"
    ga, _ = irc_run.run_go(exe, ops, tag="c03r")
    gb, _ = irc_run.run_go(exe, [("NOP" if o == "M" else o) for o in ops], tag="c03r")
    del os.environ["VERIF_LIVE_RCPT"]
    for o, a, b in zip(ops[-6:], ga[-6:], gb[-6:]):
        print("%-40s\n  with cut:    %s\n  without cut: %s" % ((irc_check.txt(o) or o)[:40], irc_run.show(a)[:300], irc_run.show(b)[:300]))
    return 1 if mask_dump(ga[-1]) != mask_dump(gb[-1]) else 0
