"""C13: reference monitor over the real server's announcements + correspondence with the Lean model."""
import irc_check
import irc_monitor


def oracle(h, g, l):
    return irc_monitor.monitor(h, g, "C13")


def check(run):
    n, L = (300, 120) if run.tier == "quick" else (8000, 300)
    return irc_check.run_property(run, oracle, n, L,
        rule="random histories; every output message of every entry is checked by an independent reference monitor that tracks membership, channel-operator status, nick ownership and operator status only from what the server announces; non-trivial = history > 5 ops; distinct by op list")


def replay(run, path):
    return irc_check.replay(run, path, oracle)
