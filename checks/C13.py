"""C13: reference monitor over the real server's announcements + correspondence with the Lean model."""
import irc_check
import irc_monitor


def oracle(h, g, l):
    return irc_monitor.monitor(h, g, "C13")


def unhex(x):
    return "" if x in ("-", "") else bytes.fromhex(x).decode("utf-8", "replace")


def parse_dump(line):
    """VerifDump -> (sessions: id -> dict, channels: lc -> dict)"""
    sess, chans = {}, {}
    for part in line.split(" | "):
        f = part.split(" ")
        if f[0] == "S":
            kvs = dict(x.split("=", 1) for x in f[2:] if "=" in x)
            sess[int(f[1].split(".")[0]) if f[1].endswith(".0") else f[1]] = {"nick": irc_monitor.lower_nick(unhex(kvs.get("n", "-"))), "oper": kvs.get("op") == "1", "srv": kvs.get("srv") == "1",
                                                                              "chans": set(unhex(c) for c in kvs.get("ch", "").split(",") if c)}
        elif f[0] == "C":
            kvs = dict(x.split("=", 1) for x in f[2:] if "=" in x)
            mem = {}
            for m in kvs.get("N", "").split(","):
                if ":" in m:
                    n, fl = m.split(":")
                    mem[unhex(n)] = fl
            chans[unhex(f[1])] = {"modes": kvs.get("m", ""), "key": kvs.get("k", ""), "bans": kvs.get("b", ""), "topic": kvs.get("t", ""), "mem": mem}
    return sess, chans


def state_oracle(ops, gl):
    """judged on the implementation's own state dumps (before/after every entry): an entry of a client that is
    neither channel operator of a channel nor IRC operator leaves that channel's modes, key, bans, operator flags
    and (if +t or not a member) topic alone"""
    prev = None
    for j, (o, g) in enumerate(zip(ops, gl)):
        if o == "R":
            prev = None
            continue
        if o != "D":
            continue
        cur = parse_dump(g)
        e = ops[j - 1] if j > 0 else ""
        f = e.split()
        if prev is not None and f and f[0] == "E" and f[1] == "2":
            actor = int(f[3])
            ps, pc = prev
            cs, cc = cur
            a = ps.get(actor)
            if a and not a["srv"] and not a["oper"] and not (cs.get(actor) or {}).get("oper"):
                for lc, before in pc.items():
                    after = cc.get(lc)
                    if after is None:
                        continue
                    isop = "o" in before["mem"].get(a["nick"], "")
                    if isop:
                        continue
                    ismember = a["nick"] in before["mem"]
                    why = None
                    for fld, label in (("modes", "modes"), ("key", "key"), ("bans", "ban list")):
                        if before[fld] != after[fld]:
                            why = "%s of %s changed from %r to %r" % (label, lc, before[fld], after[fld])
                    if before["topic"] != after["topic"] and ("t" in before["modes"] or not ismember):
                        why = "topic of %s changed" % lc
                    newnick = (cs.get(actor) or {}).get("nick", a["nick"])
                    ops_b = {n for n, fl in before["mem"].items() if "o" in fl} - {a["nick"], newnick}
                    ops_a = {n for n, fl in after["mem"].items() if "o" in fl and n in before["mem"]} - {a["nick"], newnick}
                    gone = set(before["mem"]) - set(after["mem"])
                    if ops_a - ops_b or (ops_b - ops_a - gone):
                        why = "channel operators of %s changed from %s to %s" % (lc, sorted(ops_b), sorted(ops_a))
                    if "o" in after["mem"].get(newnick, "") and ismember:
                        why = "%s made itself channel operator of %s" % (newnick, lc)
                    kicked = [n for n in gone if n not in (a["nick"],)]
                    if kicked and irc_check.txt(e).split(" ")[0].upper() == "KICK":
                        why = "%s removed from %s by a KICK" % (kicked, lc)
                    if why:
                        return (j - 1, "c13:state", "%s by session %d (%r), which is neither channel operator there nor IRC operator — input %r" % (why, actor, a["nick"], irc_check.txt(e)[:80]))
        prev = cur
    return None


def check(run):
    n, L = (300, 120) if run.tier == "quick" else (8000, 300)
    return irc_check.run_property(run, oracle, n, L, state_oracle=state_oracle,
        rule="random histories; every output message of every entry is checked by an independent reference monitor that tracks membership, channel-operator status, nick ownership and operator status only from what the server announces; non-trivial = history > 5 ops; distinct by op list")


def replay(run, path):
    return irc_check.replay(run, path, oracle)
