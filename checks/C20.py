"""C20: concurrent API use while entries are applied is free of data races."""
import glob
import os
import re
import shutil
import vlib
import irc_run
import api_run

FILES = dict(api_run.FILES)
FILES["zz_verif_race_test.go"] = os.path.join(vlib.ROOT, "harness", "main", "zz_verif_race_test.go")


def parse_reports(text):
    """-> list of races: {'kind', 'a': [frames], 'b': [frames]} with frames = (function, file:line)"""
    races = []
    for block in text.split("==================")[1:]:
        if "WARNING: DATA RACE" not in block:
            continue
        acc = []
        cur = None
        for line in block.splitlines():
            m = re.match(r"^(Read|Write|Previous read|Previous write|Atomic read|Atomic write|Previous atomic \w+) at (0x[0-9a-f]+) by (.*):", line)
            if m:
                cur = {"op": m.group(1), "frames": []}
                acc.append(cur)
                continue
            if re.match(r"^(Goroutine|Mutex) ", line):
                cur = None
                continue
            if cur is not None:
                fm = re.match(r"^  (\S.*)\(\)$", line)
                if fm:
                    cur["frames"].append([fm.group(1), ""])
                elif line.startswith("      ") and cur["frames"] and not cur["frames"][-1][1]:
                    cur["frames"][-1][1] = line.strip().split(" ")[0]
        if len(acc) >= 2:
            races.append({"a": acc[0], "b": acc[1]})
    return races


STATE_PKGS = ("internal/ircserver", "internal/outputstream", "internal/raftstore")


def in_scope(r):
    """the property is about IRC server, output stream and store state (and the pointers to them which
    Restore swaps): one of the two accesses must run inside those packages or inside the FSM"""
    for acc in (r["a"], r["b"]):
        for f in acc["frames"][:8]:
            if any(p in f[0] for p in STATE_PKGS) or "robustirc.(*FSM)" in f[0]:
                return True
    return False


def own(frame):
    return "robustirc/robustirc" in frame[0] and "zz_verif" not in frame[1]


def top_own(acc):
    for f in acc["frames"]:
        if own(f):
            return re.sub(r"^github.com/robustirc/robustirc/?", "", f[0]) or f[0]
    return None


def signature(r):
    a, b = top_own(r["a"]), top_own(r["b"])
    return " <-> ".join(sorted([a or "?", b or "?"]))


def check(run):
    secs = 6 if run.tier == "quick" else 90
    proved = run.prove()
    static_bad, order_bad = [], []
    if not proved:
        # which rows of the regenerated access table break the lock discipline?
        scratch = os.path.join(vlib.BUILD, "c20_offending.lean")
        open(scratch, "w").write("import Robust.Race.Discipline\nopen Robust.Race.Discipline in\n#eval offending\nopen Robust.Race.Discipline in\n#eval orderOffending\n")
        vlib.lake_build(["Robust.Race.Discipline"])
        rc0, out0, _ = vlib.sh(["lake", "env", "lean", scratch], cwd=vlib.LEAN)
        static_bad = re.findall(r'\("([^"]+)", "([^"]+)", "([^"]+)", (true|false), \[([^\]]*)\]\)', re.sub(r"\s+", " ", out0))
        order_bad = re.findall(r'\("([^"]+)", "([^"]+)", "([^":]+:[^"]+)"\)', re.sub(r"\s+", " ", out0))
    ok, exe, out = vlib.build_harness("race", "", FILES, extra_overlay=irc_run.EXTRA, race=True)
    run.obligation("go harness builds from /repo with -race (package main + overlay)", ok, out)
    if not ok:
        run.violation("broken:harness-build", "the Go harness no longer builds against /repo", {"log": out[-2000:]}, False)
        return run.finish()
    text, out, nops, rc = "", "", 0, 0
    for phase, restore in (("all handlers + apply + snapshot + expiry", "0"), ("restore + handlers on the IRC state", "1")):
        d = vlib.workdir("c20")
        logp = os.path.join(d, "race")
        outp = os.path.join(d, "out.txt")
        env = {"VERIF_TMP": d, "TMPDIR": d, "VERIF_RACE_SECONDS": str(secs), "GORACE": "log_path=%s halt_on_error=0 history_size=4" % logp, "VERIF_SEED": str(run.seed),
               "VERIF_RACE_RESTORE": restore}
        rc1, out1 = vlib.run_harness(exe, "/dev/null", outp, env_extra=env, run="TestVerifRace", timeout=secs * 4 + 120)
        for f in sorted(glob.glob(logp + ".*")):
            text += open(f, errors="replace").read()
        if "WARNING: DATA RACE" in out1:
            text += out1
        n1 = 0
        if os.path.exists(outp):
            m = re.search(r"ops=(\d+)", open(outp).read())
            n1 = int(m.group(1)) if m else 0
        shutil.rmtree(d, ignore_errors=True)
        if n1 == 0:
            rc, out = rc1 or 1, out + "\n[phase %s] " % phase + out1[-1500:]
        nops += n1
        if n1 and rc1 and "race detected" not in out1:
            rc, out = rc1, out + "\n[phase %s] " % phase + out1[-1500:]
    races = parse_reports(text)
    mine0 = [r for r in races if top_own(r["a"]) or top_own(r["b"])]
    mine = [r for r in mine0 if in_scope(r)]
    for sig in sorted({signature(r) for r in mine0 if not in_scope(r)}):
        print("NOTE: data race outside the property's scope (not on IRC server / output stream / store state): " + sig)
        run.assumptions.append("reported by the detector but outside the property's state: " + sig)
    sigs = {}
    for r in mine:
        sigs.setdefault(signature(r), r)
    ran = nops > 0 and rc == 0
    run.obligation("stress run completed (%d operations in %ds, exit %d)" % (nops, secs, rc), ran, out[-1500:])
    run.obligation("race detector: no data race involving robustirc code (%d reports, %d distinct)" % (len(mine), len(sigs)), not sigs, "; ".join(sorted(sigs))[:1500])
    for fn, st, fld, w, held in static_bad:
        run.violation("lockset:%s:%s.%s" % (fn, st, fld), "%s %s %s.%s while holding only [%s] (lock discipline broken; see Props/C20.lean for the guard)" % (fn, "writes" if w == "true" else "reads", st, fld, held),
                      {"kind": "lockset", "function": fn, "field": st + "." + fld, "write": w == "true", "held": held}, True)
    for held, acq, fn in order_bad:
        run.violation("lockorder:%s:%s>%s" % (fn, held, acq), "%s acquires %s while %s is (or may be) held: against the lock order, a deadlock with the paths that take them the other way round" % (fn, acq, held),
                      {"kind": "lockorder", "function": fn, "held": held, "acquires": acq}, True)
    hung = "test timed out" in out or "panic: test timed out" in text
    if hung and not order_bad:
        run.notes.append("the stress run hung: goroutines blocked on mutexes (deadlock?)")
    for sig, r in sorted(sigs.items()):
        run.violation("race:" + sig, "data race between %s" % sig, {"kind": "race", "signature": sig, "access_a": r["a"], "access_b": r["b"], "how": "VERIF_RACE_SECONDS=%d go test -race harness TestVerifRace" % secs}, True)
    if not ran and not sigs and not order_bad:
        run.violation("broken:stress-run", "the stress harness did not run to completion", {"log": out[-2000:]}, False)
    elif not proved and not sigs and not static_bad and not order_bad:
        failed = [o[0] for o in run.failed_obligations()]
        run.violation("broken:" + (failed[0] if failed else "?")[:40], "proof obligations no longer check: %s" % failed, {"broken": failed, "detail": [o[2][-1500:] for o in run.failed_obligations()]}, False)
    run.samples = [{"operations": nops, "seconds": secs}]
    run.coverage.update({"evaluations": nops, "distinct_nontrivial": nops, "traces_validated_against_impl": 1 if ran else 0, "race_reports": len(races), "race_reports_robustirc": len(mine)})
    run.assumptions += ["the race detector only sees the schedules that happen in the run", "user-triggered raft.Restore on the leader stands for InstallSnapshot on a follower; the expiry sweep is kept apart from it (it only runs on the leader)"]
    return run.finish(rule="all concurrently executed operation groups (two POSTs of one session, long-poll GETs, create/delete, status pages, config, expiry sweep, Snapshot+Persist, Restore) run together under the Go race detector for the tier's duration")


def replay(run, path):
    import json
    r = json.load(open(path))
    print(json.dumps(r.get("replay", {}), indent=1)[:3000])
    return 0
