"""C08: output stream next-message lookup.  Theorems over the transition-system model
(Robust.Stream.OS / Threads) + sequential differential programs on the real OutputStream +
concurrent scenario runs whose outcomes must lie in the model's outcome set."""
import os
import shutil
import vlib
import gen_stream as gs

HARNESS = {"zz_verif_test.go": os.path.join(vlib.ROOT, "harness", "outputstream", "zz_verif_test.go"),
           "zz_verif_stream_test.go": os.path.join(vlib.ROOT, "harness", "outputstream", "zz_verif_stream_test.go"),
           "zz_verif_stress_test.go": os.path.join(vlib.ROOT, "harness", "outputstream", "zz_verif_stress_test.go")}


def stress(run, exe, secs):
    """free-running readers/writer/compactor with real parallelism; returns (ok, line)"""
    d = vlib.workdir("c08st")
    outp = os.path.join(d, "out.txt")
    rc, out = vlib.run_harness(exe, "/dev/null", outp, env_extra={"VERIF_TMP": d, "VERIF_STRESS_SECONDS": str(secs), "VERIF_SEED": str(run.seed)}, run="TestVerifStreamStress", timeout=secs * 3 + 60)
    line = open(outp).read().strip() if os.path.exists(outp) else "no output (exit %d): %s" % (rc, out[-600:])
    shutil.rmtree(d, ignore_errors=True)
    return line.startswith("ok "), line

# regression corpus (runs first): the two repaired defects as sequential shadows + TestDeleteMiddle
CORPUS = [
    # fixed: Add 5, Add 7, Delete 5 before the reader parked behind 0 runs -> it went back to sleep although 7 is stored
    ["park 1 0", "burst add 0 1 5 1 61 0 ; add 0 1 7 1 62 0 ; del 5", "join 1", "next 0"],
    ["add 0 1 5 1 61 0", "park 1 5", "burst add 0 1 7 1 62 0 ; del 7", "join 1", "add 0 1 9 1 63 0", "join 1"],
    # fixed: reader parked behind the tail, tail deleted, next Add -> nil dereference in the wait loop
    ["add 0 1 1 1 61 0", "add 0 1 2 1 62 0", "park 1 2", "del 2", "add 0 1 3 1 63 0", "join 1", "next 0"],
    # fixed: GetNext(20) on {0,15} parked, Add(16) returned batch 16 (<= 20)
    ["add 0 1 15 1 61 0", "park 1 20", "add 0 1 16 1 62 0", "join 1", "add 0 1 21 1 63 0", "join 1"],
    ["add 0 1 5 1 61 0", "park 1 5", "park 2 0", "park 3 9", "cancel 1", "join 1", "add 0 1 7 1 62 0", "join 1", "join 3", "add 0 1 12 1 63 0", "join 3"],
    ["add 0 1 1 1 61 0", "add 0 1 2 1 62 0", "add 0 1 3 1 63 0", "del 2", "del 3", "add 0 1 4 1 64 0", "dump", "next 1", "next 0", "next 3"],
    ["add 0 1 15 1 61 0", "next 20", "add 0 1 16 1 62 0", "next 20", "add 0 1 21 1 63 0", "next 20", "next 16"],
    ["add 0 1 1 1 61 0", "add 0 1 2 1 62 0", "get 1", "del 2", "next 1", "next 2", "add 0 1 3 1 63 0", "next 1", "next 2", "dump"],
]


def parse_add(g):
    n = int(g[2]); msgs, p = [], 3
    for _ in range(n):
        k = int(g[p + 3])
        msgs.append((int(g[p]), int(g[p + 1]), bytes.fromhex(g[p + 2]) if g[p + 2] != "-" else b"", [int(x) for x in g[p + 4:p + 4 + k]]))
        p += 4 + k
    return msgs


def valid(ops):
    """preconditions of the property: Add ids strictly increase, the sentinel is never deleted"""
    mx = 0
    for op in ops:
        for sub in (" ".join(op.split()[1:]).split(" ; ") if op.startswith("burst") else [op]):
            g = sub.split()
            if g[0] == "reset":
                mx = 0
            elif g[0] == "add" and int(g[2]) > 0:
                if int(g[3]) <= mx:
                    return False
                mx = int(g[3])
            elif g[0] == "del" and int(g[1]) == 0:
                return False
    return True


def oracle(ops, outs):
    """Property oracle on the implementation's own answers, against a plain sorted map:
    `next x` returns the batch with the smallest stored id > x, or blocks iff there is none;
    `get id` returns exactly what was added under id while it is stored; a blocked GetNext
    returns the smallest stored id above x as soon as one exists (for readers that were parked
    during a `burst` any instant of the burst is allowed), returns [] once cancelled and woken,
    never panics and never stays blocked although a successor exists."""
    store = {0: "[0.0:-:]"}
    readers = {}   # tid -> dict(x, rets=set of acceptable return values, parked=may still be parked)

    def succ(x):
        gt = sorted(k for k in store if k > x)
        return "ret:" + store[gt[0]] if gt else None

    def wake_all(final):
        for r in readers.values():
            if r["parked"] and succ(r["x"]):
                r["rets"].add(succ(r["x"]))
                if final:
                    r["parked"] = False
    for i, (op, out) in enumerate(zip(ops, outs)):
        f = op.split()
        if "reader-panic" in out:
            return i, "panic inside a blocked GetNext after `%s`" % op[:60]
        if out == "poisoned":
            continue
        if out.endswith("unsettled"):
            return i, "unsettled: readers neither returned nor parked within 3s after `%s`" % op[:60]
        if f[0] == "reset":
            store = {0: "[0.0:-:]"}
            readers = {}
        elif f[0] == "burst":
            subs = " ".join(f[1:]).split(" ; ")
            for sub, o1 in zip(subs, out.split(",")):
                g = sub.split()
                if g[0] == "add" and o1 == "ok":
                    msgs = parse_add(g)
                    store[msgs[0][0]] = gs.canon_msgs(msgs)
                elif g[0] == "del" and o1 == "ok":
                    store.pop(int(g[1]), None)
                wake_all(False)
            wake_all(True)
        elif f[0] == "park":
            want = succ(int(f[2])) or "parked"
            readers[f[1]] = dict(x=int(f[2]), rets=set() if want == "parked" else {want}, parked=(want == "parked"))
            if out != want:
                return i, "GetNext(%s) %s, expected %s" % (f[2], out[:80], want[:80])
        elif f[0] == "join":
            r = readers.get(f[1])
            if r is None:
                continue
            if out == "blocked":
                if not r["parked"]:
                    return i, "reader of GetNext(%d) stays blocked although %s" % (r["x"], "a successor is stored" if succ(r["x"]) else "it was cancelled and woken")
                r["rets"] = set()
            else:
                if out not in r["rets"]:
                    return i, "reader of GetNext(%d) returned %s, which was never the smallest stored id above x (acceptable: %s)" % (r["x"], out[:60], sorted(x[:30] for x in r["rets"]))
                r["rets"], r["parked"] = {out}, False
        elif f[0] == "cancel":
            for t, r in readers.items():
                if r["parked"]:
                    if t == f[1]:
                        r["rets"].add(succ(r["x"]) or "ret:[]")
                        r["parked"] = False
                    elif succ(r["x"]):
                        r["rets"].add(succ(r["x"]))
                        r["parked"] = False
        elif f[0] == "add" and out == "ok":
            msgs = parse_add(f)
            store[msgs[0][0]] = gs.canon_msgs(msgs)
            wake_all(True)
        elif f[0] == "del" and out == "ok":
            store.pop(int(f[1]), None)
        elif f[0] == "get":
            want = store.get(int(f[1]), "none")
            if out != want:
                return i, "get %s returned %s, stored is %s" % (f[1], out, want)
        elif f[0] == "next":
            x = int(f[1])
            gt = sorted(k for k in store if k > x)
            want = store[gt[0]] if gt else "blocked"
            if out != want:
                return i, "next %s returned %s, smallest stored id > x is %s" % (x, out[:80], (str(gt[0]) if gt else "none (must block)"))
        if "panic" in out and f[0] != "add":
            if not (f[0] == "del" and len(store) <= 1):
                return i, "%s panicked" % op[:60]
    return None


def shrink(ops, fails):
    """delta debugging on the op list"""
    cur = list(ops)
    n = 2
    while len(cur) >= 2:
        chunk = max(1, len(cur) // n)
        reduced = False
        for i in range(0, len(cur), chunk):
            cand = cur[:i] + cur[i + chunk:]
            if cand and fails(cand):
                cur, reduced = cand, True
                n = max(n - 1, 2)
                break
        if not reduced:
            if chunk == 1:
                break
            n = min(n * 2, len(cur))
    return cur


def check(run):
    nprog, plen = (300, 60) if run.tier == "quick" else (8000, 120)
    proved = run.prove()
    ok, exe, out = vlib.build_harness("outputstream", "internal/outputstream", HARNESS)
    run.obligation("go harness builds from /repo (internal/outputstream)", ok, out)
    if not ok:
        run.violation("broken:harness-build", "the Go harness no longer builds against /repo", {"log": out[-2000:]}, False)
        return run.finish()
    rng = run.rng
    progs = [list(c) for c in CORPUS] + [gs.gen_program(rng, rng.randrange(5, plen)) for _ in range(nprog)]
    progs += [gs.gen_conc_program(rng, rng.randrange(5, 40)) for _ in range(nprog // 2)]
    ops = []
    bounds = []
    for p in progs:
        ops.append("reset")
        bounds.append((len(ops), len(ops) + len(p)))
        ops += p
    d = vlib.workdir("c08")
    gl, ll, di, err = vlib.differential(run, "stream", ops, exe, "stream", env_extra={"VERIF_TMP": d})
    shutil.rmtree(d, ignore_errors=True)
    # readers that were parked during a burst may legitimately have run at any instant of it:
    # their later `join` lines are judged by the oracle only (membership), not by equality
    if di is not None:
        touched, gm, lm = set(), list(gl), list(ll)
        parked_now = set()
        for j, o in enumerate(ops):
            f = o.split()
            if f[0] == "reset":
                touched, parked_now = set(), set()
            elif f[0] == "park":
                parked_now.add(f[1])
            elif f[0] == "burst":
                touched |= parked_now
            elif f[0] == "join" and f[1] in touched and j < len(gm) and j < len(lm):
                gm[j] = lm[j] = "*"
        di = vlib.first_diff(gm, lm)
    corr_ok = di is None and err is None and len(gl) == len(ops)
    run.obligation("correspondence: real OutputStream == Lean model on %d sequential programs (%d ops)" % (len(progs), len(ops)), corr_ok,
                   err or ("first difference at op %s `%s`: go=%s lean=%s" % (di, ops[di] if di is not None and di < len(ops) else "", gl[di][:200] if di is not None and di < len(gl) else "<missing>", ll[di][:200] if di is not None and di < len(ll) else "<missing>")))
    st_ok, st_line = stress(run, exe, 3 if run.tier == "quick" else 60)
    run.obligation("free-running stress (parallel readers following the stream, writer, compactor): every batch delivered in order, nobody left blocked", st_ok, st_line)
    bad = oracle(ops, gl)
    kinds = {}
    for o, g in zip(ops, gl):
        k = o.split()[0] + ("/blocked" if g == "blocked" else "/none" if g == "none" else "/panic" if g == "panic" else "")
        kinds[k] = kinds.get(k, 0) + 1
    if bad is not None:
        i, why = bad
        # cut out the program containing op i and shrink it
        lo, hi = [b for b in bounds if b[0] <= i < b[1] or b[0] - 1 == i][0]
        prog = ops[lo:i + 1]

        def fails(cand):
            dd = vlib.workdir("c08s")
            g, l, _, _ = vlib.differential(run, "shrink", ["reset"] + cand, exe, "stream", env_extra={"VERIF_TMP": dd})
            shutil.rmtree(dd, ignore_errors=True)
            return valid(cand) and oracle(["reset"] + cand, g) is not None
        small = shrink(prog, fails) if len(prog) < 400 else prog
        run.violation("oracle:" + why.split(" ")[0], why, {"kind": "stream", "ops": small, "why": why}, True)
    elif err and "go harness exit" in err and len(gl) < len(ops) and any(b[0] <= len(gl) < b[1] for b in bounds):
        # the process running the real OutputStream died inside the op after the last answered one (fatal error, stack
        # exhaustion, deadlock detector): run that program alone; if it dies again it is the failing input
        i = len(gl)
        lo, hi = [b for b in bounds if b[0] <= i < b[1]][0]
        prog = ops[lo:i + 1]
        dd = vlib.workdir("c08c")
        g2, _, _, err2 = vlib.differential(run, "crash", ["reset"] + prog, exe, "stream", env_extra={"VERIF_TMP": dd}, timeout=120)
        shutil.rmtree(dd, ignore_errors=True)
        again = bool(err2 and "go harness exit" in err2 and len(g2) < len(prog) + 1)
        why = "the process died inside `%s` on the real OutputStream (%s)" % (ops[i][:60], ("fatal error: " + err.split("fatal error:")[1].split("\n")[0].strip()) if "fatal error:" in err else "no answer, exit != 0")
        if again:
            run.violation("oracle:crash", why, {"kind": "stream", "ops": prog, "why": why}, True)
        else:
            failed = [o[0] for o in run.failed_obligations()]
            run.violation("broken:" + (failed[0] if failed else "?")[:40], "proof or correspondence no longer checks: %s" % failed,
                          {"broken": failed, "first_diff_op": ops[i], "program": prog, "detail": [o[2][-1500:] for o in run.failed_obligations()]}, False)
    elif not st_ok:
        run.violation("stress:" + st_line.split(":")[0].replace("violation ", "")[:24], st_line, {"kind": "stress", "how": "TestVerifStreamStress with VERIF_SEED=%s" % run.seed, "observed": st_line}, True)
    elif not proved or not corr_ok:
        failed = [o[0] for o in run.failed_obligations()]
        run.violation("broken:" + (failed[0] if failed else "?")[:40], "proof or correspondence no longer checks: %s" % failed,
                      {"broken": failed, "first_diff_op": ops[di] if di is not None and di < len(ops) else None, "detail": [o[2][-1500:] for o in run.failed_obligations()]}, False)
    run.samples = [{"program": progs[3][:12]}, {"program": CORPUS[1]}]
    run.coverage.update({"evaluations": len(ops), "distinct_nontrivial": len(set(tuple(p) for p in progs if len(p) > 3)), "traces_validated_against_impl": len(progs) if corr_ok else 0,
                         "op_kinds": kinds})
    run.assumptions += ["LevelDB is a sorted byte-string map with atomic batch writes", "sync.RWMutex / sync.Cond behave as documented (mutual exclusion, Wait releases atomically, Broadcast wakes all waiters)",
                        "cache eviction (>1000 entries) is not modelled: invisible while the cache is coherent (part of the proved invariant)",
                        "preconditions of the property: Add ids strictly increase, the sentinel batch 0 is not deleted"]
    return run.finish(rule="random sequential programs of add/del(oldest|tail|middle|missing)/get/next/lastseen/dump within the preconditions; non-trivial = program with > 3 ops; distinct by op list")


def replay(run, path):
    import json
    r = json.load(open(path))
    ops = ["reset"] + r.get("replay", {}).get("ops", [])
    ok, exe, out = vlib.build_harness("outputstream", "internal/outputstream", HARNESS)
    d = vlib.workdir("c08r")
    gl, ll, di, err = vlib.differential(run, "replay", ops, exe, "stream", env_extra={"VERIF_TMP": d})
    shutil.rmtree(d, ignore_errors=True)
    for o, g, l in zip(ops, gl, ll):
        print("%-40s go=%s lean=%s" % (o[:40], g[:60], l[:60]))
    b = oracle(ops, gl)
    print("oracle:", b)
    return 1 if b or di is not None else 0
