"""C10: a retried POST (same client message id) is never applied twice."""
import vlib
import api_run
from api_run import hx, PW, kv


def scenario(rng):
    ops = list(api_run.BOOT)
    ops += ["create a", "create b", "post a ok 11 " + hx("NICK alice"), "post a ok 12 " + hx("USER u 0 * :real"),
            "post b ok 21 " + hx("NICK bob"), "post b ok 22 " + hx("USER u 0 * :real"), "post a ok 13 " + hx("JOIN #c"), "post b ok 23 " + hx("JOIN #c")]
    # a third session that never completes registration (only NICK, only a keepalive, or a line the server refuses
    # before registration): its marker is replicated state like any other
    ctext = rng.choice(["NICK carol", "PING x", "PRIVMSG #c :too early", "USER u 0 * :real"])
    ops += ["create c", "post c ok 31 " + hx(ctext)]
    checks = []    # (index of retry op, expected newentries 0)
    cm = {"a": 13, "b": 23}
    last = {"a": "JOIN #c", "b": "JOIN #c"}
    for _ in range(rng.randrange(6, 14)):
        who = rng.choice("ab")
        r = rng.random()
        if r < 0.45:
            cm[who] += 1
            # also lines the IRC layer cannot parse or does not know: they are log entries like any other
            text = rng.choice(["PRIVMSG #c :hello %d" % cm[who], "TOPIC #c :t%d" % cm[who], "PING x", "MODE #c +t", "AWAY :brb",
                               "", " ", ":alice", ":", "\r\nPRIVMSG #c :cut away", "FOO bar", "privmsg  #c :two spaces %d" % cm[who]])
            last[who] = text
            ops.append("post %s ok %d %s" % (who, cm[who], hx(text)))
        elif r < 0.85:
            # retry the last message of that session, any number of times, possibly with other traffic in between
            for _ in range(rng.choice([1, 2, 3])):
                # a real retry repeats the text; the id alone must decide
                ops.append("post %s ok %d %s" % (who, cm[who], hx(rng.choice([last[who], "PRIVMSG #c :retried"]))))
                checks.append(len(ops) - 1)
        elif r < 0.92:
            ops.append(rng.choice(["snapshot", "snapshot 7200"]))
        else:
            ops.append(rng.choice(["restart", "kill"]))
    # after a snapshot + restart the marker must still be there
    ops += ["snapshot 7200", "restart", "post a ok %d %s" % (cm["a"], hx("PRIVMSG #c :retried after restore")), "post b ok %d %s" % (cm["b"], hx("PRIVMSG #c :retried after restore"))]
    checks += [len(ops) - 2, len(ops) - 1]
    ops.append("post c ok 31 " + hx(ctext))
    checks.append(len(ops) - 1)
    if rng.random() < 0.6:
        # the last entry of a session is a message of death (what a crashed apply leaves behind): it moves the
        # marker too, also after it was folded into a snapshot
        cm["a"] += 1
        ops += ["death a %d" % cm["a"], "snapshot 7200", "restart", "post a ok %d %s" % (cm["a"], hx("PRIVMSG #c :retried after death"))]
        checks.append(len(ops) - 1)
    ops += ["marker a", "marker b"]
    # message of death sets the marker too is covered by C07; a closed session refuses the retry
    ops += ["post a ok %d %s" % (cm["a"] + 1, hx("QUIT :bye")), "post a ok %d %s" % (cm["a"] + 1, hx("QUIT :bye"))]
    closed = len(ops) - 1
    ops += ["get b ok 0.0"]
    return ops, checks, closed, cm


def check(run):
    proved = run.prove()
    ok, exe, out = api_run.build()
    run.obligation("go harness builds from /repo (package main: raft + api.HTTP)", ok, out)
    if not ok:
        run.violation("broken:harness-build", "the Go harness no longer builds against /repo", {"log": out[-2000:]}, False)
        return run.finish()
    nscen = 6 if run.tier == "quick" else 80
    bad, evals, nretries, samples = None, 0, 0, []
    for _ in range(nscen):
        ops, checks, closed, cm = scenario(run.rng)
        gl, err = api_run.run_ops(exe, ops, tag="c10")
        evals += len(ops)
        if err or len(gl) != len(ops):
            bad = bad or ("harness", err or "output has %d lines for %d ops" % (len(gl), len(ops)), ops)
            continue
        for i in checks:
            r = kv(gl[i])
            nretries += 1
            if r.get("status") != "200":
                bad = bad or ("status", "retry `%s` was answered %s" % (ops[i][:60], gl[i]), ops[:i + 1])
            if r.get("newentries") != "0":
                bad = bad or ("applied-twice", "retry `%s` created %s new log entries" % (ops[i][:60], r.get("newentries")), ops[:i + 1])
        r = kv(gl[closed])
        if r.get("newentries") != "0" or r.get("status") == "200":
            bad = bad or ("closed", "retry after the session was closed: %s" % gl[closed], ops[:closed + 1])
        # no second delivery: b's stream contains each of a's messages at most once
        stream = gl[-1]
        msgs = kv(stream).get("msgs", "")
        datas = [m.split(":", 1)[1] for m in msgs.split(",") if ":" in m]
        texts = [bytes.fromhex(d).decode("utf-8", "replace") for d in datas if d != "-"]
        dup = [t for t in set(texts) if texts.count(t) > 1 and "PRIVMSG" in t]
        if dup:
            bad = bad or ("delivered-twice", "b received %r more than once" % dup[0][:80], ops)
        if any("retried" in t for t in texts):
            bad = bad or ("delivered", "a retried POST was delivered: %r" % [t for t in texts if "retried" in t][0][:80], ops)
        mi = ops.index("marker a")
        if gl[mi] != str(cm["a"]) or gl[mi + 1] != str(cm["b"]):
            bad = bad or ("marker", "markers after snapshot+restart: a=%s b=%s, expected %d %d" % (gl[mi], gl[mi + 1], cm["a"], cm["b"]), ops[:mi + 2])
        samples.append({"ops": [o[:60] for o in ops[8:16]], "answers": gl[8:16]})
    run.obligation("retry scenarios on the real handlers: %d retries (after apply, after snapshot+restart, after kill, after close), none proposed or delivered" % nretries, bad is None, bad[1] if bad else "")
    if bad:
        sig, why, rops = bad
        run.violation("oracle:" + sig, why, {"kind": "api", "ops": rops, "why": why}, True)
    elif not proved:
        failed = [o[0] for o in run.failed_obligations()]
        run.violation("broken:" + (failed[0] if failed else "?")[:40], "proof obligations no longer check: %s" % failed, {"broken": failed, "detail": [o[2][-1500:] for o in run.failed_obligations()]}, False)
    run.samples = samples[:2]
    run.coverage.update({"evaluations": evals, "distinct_nontrivial": nretries, "traces_validated_against_impl": nscen, "retries": nretries})
    run.assumptions += ["the retry arrives after the first copy has been applied on the handling node (the property's quantifier)", "client message ids differ from the session's current marker (bridges use random non-zero ids)"]
    return run.finish(rule="random traffic of two sessions over real HTTP handlers + in-process raft with retries (1..3 repeats, interleaved with the other session, across snapshot, restart and SIGKILL); oracle: status 200, no new log entry, no second delivery, marker survives; non-trivial = each retry")


def replay(run, path):
    import json
    r = json.load(open(path))
    ops = r.get("replay", {}).get("ops", [])
    ok, exe, out = api_run.build()
    gl, err = api_run.run_ops(exe, ops, tag="c10r")
    for o, g in zip(ops, gl):
        print("%-70s %s" % (o[:70], g[:100]))
    print(err)
    return 0
