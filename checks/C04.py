"""C04: exactly-once, in-order delivery when a client resumes with lastseen."""
import os
import shutil
import vlib

HARNESS = {"zz_verif_resume_test.go": os.path.join(vlib.ROOT, "harness", "api", "zz_verif_resume_test.go")}


def gen_net(rng):
    nb = rng.choice([1, 2, 3, 4, 6, 9])
    net, bid = [], rng.choice([0, 0, 10, 1000])
    for _ in range(nb):
        bid += rng.choice([1, 1, 2, 7])
        n = rng.choice([1, 1, 2, 3, 5])
        msgs = []
        for j in range(n):
            k = rng.choice([0, 1, 1, 2])
            msgs.append(rng.sample([1, 2, 3], k))
        net.append((bid, msgs))
    return net


def net_spec(net):
    parts = [str(len(net))]
    for bid, msgs in net:
        parts += [str(bid), str(len(msgs))]
        for rc in msgs:
            parts += [str(len(rc))] + [str(x) for x in rc]
    return " ".join(parts)


def flat(net):
    return [(bid, j + 1, rc) for bid, msgs in net for j, rc in enumerate(msgs)]


def after(net, i, r):
    return [m for m in flat(net) if m[0] > i or (m[0] == i and m[1] > r)]


def conn_line(net, p0, i, r, want, seed):
    return "conn %d %d %d %d %d ; %s" % (p0, i, r, want, seed, net_spec(net))


def fmt(ms):
    return "[" + ",".join("%d.%d" % (m[0], m[1]) for m in ms) + "]"


def gen_chain(rng):
    """one client (session 1) reading its stream over several connections to nodes of varying lag"""
    net = gen_net(rng)
    ids = [b[0] for b in net]
    start = rng.choice([(ids[0] - 1, 0), (ids[0], 0), (ids[0], 1)]) if ids[0] > 1 else (ids[0], 0)   # session ids are raft indexes >= 1; 0 is the stream's sentinel
    lines, expects = [], []
    last = start
    received = []
    for _ in range(rng.choice([1, 2, 3, 4])):
        stream = after(net, last[0], last[1])
        cut = rng.randrange(0, len(stream) + 1) if stream else 0
        if rng.random() < 0.2:
            cut = len(stream) + 1      # ask for more than exists: the connection must simply block
        # lag of the node reconnected to: anywhere from "knows nothing" to "has everything"
        p0 = rng.randrange(0, len(net) + 1)
        lines.append(conn_line(net, p0, last[0], last[1], cut, rng.randrange(1, 10**6)))
        expects.append(fmt(stream[:cut]))
        got = [m for m in stream[:cut] if 1 in m[2]]
        received += got
        if got:
            last = (got[-1][0], got[-1][1])
    whole = [m for m in after(net, start[0], start[1]) if 1 in m[2]]
    assert received == whole[:len(received)]
    return lines, expects


REGRESSION = [
    # fixed: resume at 20.2 on a node at 19 that then applies 20, 21 -> 20.1 20.2 were delivered twice
    (conn_line([(19, [[1]]), (20, [[1], [1], [1]]), (21, [[1]])], 1, 20, 2, 2, 7), "[20.3,21.1]"),
    # fixed: resume at 20.2 on a node at 15 which catches up to 21 while the reader backs off -> 20.3 lost
    (conn_line([(15, [[1]]), (16, [[1]]), (17, [[1]]), (18, [[1]]), (19, [[1]]), (20, [[1], [1], [1]]), (21, [[1]])], 1, 20, 2, 2, 3), "[20.3,21.1]"),
    (conn_line([(19, [[1]]), (20, [[1], [1], [1]]), (21, [[1]])], 3, 20, 2, 2, 7), "[20.3,21.1]"),
    (conn_line([(19, [[1]]), (20, [[1], [1], [1]]), (21, [[1]])], 2, 20, 3, 1, 7), "[21.1]"),
]


def http_stage(run):
    import api_run
    from api_run import hx, kv
    ok, exe, out = api_run.build()
    if not ok:
        return ("harness", "the API harness no longer builds: " + out[-400:], []), 0
    rng = run.rng
    nscen = 2 if run.tier == "quick" else 20
    n = 0
    for _ in range(nscen):
        ops = list(api_run.BOOT) + ["create a", "create b"]
        cm = 10
        for who, nick in (("a", "alice"), ("b", "bob")):
            for text in ("NICK " + nick, "USER u 0 * :real", "JOIN #c"):
                cm += 1
                ops.append("post %s ok %d %s" % (who, cm, hx(text)))
        k = rng.randrange(4, 12)
        for j in range(k):
            cm += 1
            ops.append("post a ok %d %s" % (cm, hx(rng.choice(["PRIVMSG #c :r-%03d" % j, "WHO #c", "TOPIC #c :t%d" % j, "NAMES #c"]))))
        ops.append("get b ok 0.0")
        full_i = len(ops) - 1
        probes = []
        for _ in range(6):
            pos = rng.randrange(0, 25)
            lag = rng.choice(["@%d-" % max(0, pos - rng.randrange(0, 4)), "@%d" % pos, "@%d" % max(0, pos - rng.randrange(1, 5)), "0", "@%d" % (pos + 2)])
            ops.append("lagget b ok @%d %s 400" % (pos, lag))
            probes.append(len(ops) - 1)
        gl, err = api_run.run_ops(exe, ops, tag="c04h")
        if err or len(gl) != len(ops):
            return ("harness", err or "output has %d lines for %d ops" % (len(gl), len(ops)), ops), n
        full = [m for m in kv(gl[full_i]).get("msgs", "").split(",") if m]
        fpos = [tuple(int(x) for x in m.split(":")[0].split(".")) for m in full]
        for pi in probes:
            r = kv(gl[pi])
            n += 1
            if r.get("status") != "200":
                return ("status", "resume on a lagging node was answered %s" % gl[pi][:100], ops[:pi + 1]), n
            ls = tuple(int(x) for x in r["lastseen"].split("."))
            want = [m for m, p in zip(full, fpos) if p > ls]
            got = [m for m in r.get("msgs", "").split(",") if m]
            if got != want:
                gp = [m.split(":")[0] for m in got]
                wp = [m.split(":")[0] for m in want]
                return ("delivery", "resume at %s on a node that had stored up to %s: delivered %s, the messages after that position are %s" % (r["lastseen"], r.get("lagid"), gp[:12], wp[:12]), ops[:pi + 1]), n
    return None, n


def check(run):
    nchains = 250 if run.tier == "quick" else 6000
    proved = run.prove()
    ok, exe, out = vlib.build_harness("api_resume", "internal/api", HARNESS)
    run.obligation("go harness builds from /repo (internal/api)", ok, out)
    if not ok:
        run.violation("broken:harness-build", "the Go harness no longer builds against /repo", {"log": out[-2000:]}, False)
        return run.finish()
    ops = [r[0] for r in REGRESSION]
    expects = [r[1] for r in REGRESSION]
    for _ in range(nchains):
        l, e = gen_chain(run.rng)
        ops += l
        expects += e
    d = vlib.workdir("c04")
    gl, ll, di, err = vlib.differential(run, "resume", ops, exe, "resume", env_extra={"VERIF_TMP": d}, harness_run="TestVerifResume", timeout=900)
    shutil.rmtree(d, ignore_errors=True)
    corr_ok = di is None and err is None and len(gl) == len(ops)
    run.obligation("correspondence: real getMessages == Lean model on %d connections" % len(ops), corr_ok,
                   err or ("first difference at #%s `%s`: go=%s lean=%s" % (di, ops[di][:200] if di is not None and di < len(ops) else "", gl[di] if di is not None and di < len(gl) else "<missing>", ll[di] if di is not None and di < len(ll) else "<missing>")))
    bad = None
    lag = {"has_lastseen": 0, "behind_lastseen": 0, "mid_batch": 0}
    for i, (o, g, e) in enumerate(zip(ops, gl, expects)):
        h = o.split(";")[0].split()
        if int(h[3]) > 0:
            lag["mid_batch"] += 1
        if g != e and bad is None:
            bad = (i, "delivered %s, the messages after %s.%s are %s" % (g, h[2], h[3], e))
    # the same at the HTTP level: the real handleGetMessages (parsing of lastseen, session filter, flushing)
    # on a node whose output stream lags behind the client's position and catches up while the request is served
    hbad, hn = http_stage(run)
    run.obligation("HTTP level: handleGetMessages on a lagging node delivers exactly the messages after lastseen (%d resumes)" % hn, hbad is None, hbad[1] if hbad else "")
    if bad is not None:
        i, why = bad
        run.violation("oracle:delivery", why, {"kind": "resume", "op": ops[i], "go": gl[i], "expected": expects[i]}, True)
    elif hbad is not None:
        run.violation("oracle:http-" + hbad[0], hbad[1], {"kind": "api", "ops": hbad[2], "why": hbad[1]}, hbad[0] != "harness")
    elif not proved or not corr_ok:
        failed = [o[0] for o in run.failed_obligations()]
        run.violation("broken:" + (failed[0] if failed else "?")[:40], "proof or correspondence no longer checks: %s" % failed,
                      {"broken": failed, "detail": [o[2][-1500:] for o in run.failed_obligations()]}, False)
    run.samples = [{"op": ops[0], "go": gl[0] if gl else None}, {"op": ops[5], "go": gl[5] if len(gl) > 5 else None}]
    run.coverage.update({"evaluations": len(ops), "distinct_nontrivial": len(set(o for o, e in zip(ops, expects) if e != "[]")), "traces_validated_against_impl": len(ops) if corr_ok else 0,
                         "resume_inside_batch": lag["mid_batch"]})
    run.assumptions += ["the node's output stream is a growing prefix of the network's id-sorted output (no compaction inside the resume window: the property's horizon clause)",
                        "GetNext returns the least stored batch above its argument (C08, proved) — the Lean connection model uses that contract",
                        "replies of one input are numbered 1..n (ircserver invariant, checked in the IRC-layer correspondence)",
                        "the recipient filter of handleGetMessages is applied by the reference, not by the harness (covered in C11/C12 runs)"]
    return run.finish(rule="random networks (1..9 batches of 1..5 replies, recipient sets), clients reading over 1..4 successive connections with cuts between and inside batches, reconnecting to nodes with every lag (0..all batches present, rest added concurrently with random pacing); expected = messages after lastseen in id order; non-trivial = non-empty expected delivery; distinct by op text")


def replay(run, path):
    import json
    r = json.load(open(path))
    if r.get("replay", {}).get("kind") == "api":
        import api_run
        ok, exe, out = api_run.build()
        ops = r["replay"].get("ops", [])
        gl, err = api_run.run_ops(exe, ops, tag="c04r")
        for o, g in zip(ops, gl):
            print("%-60s %s" % (o[:60], g[:300]))
        print("error:", err)
        return 0
    op = r.get("replay", {}).get("op")
    ok, exe, out = vlib.build_harness("api_resume", "internal/api", HARNESS)
    d = vlib.workdir("c04r")
    gl, ll, di, err = vlib.differential(run, "replay", [op], exe, "resume", env_extra={"VERIF_TMP": d}, harness_run="TestVerifResume")
    shutil.rmtree(d, ignore_errors=True)
    print("op:  ", op, "\ngo:  ", gl, "\nlean:", ll, "\nexpected:", r.get("replay", {}).get("expected"))
    return 0 if di is None else 1
