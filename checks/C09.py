"""C09: the LevelDB store honours raft's LogStore / StableStore contracts."""
import os
import shutil
import subprocess
import vlib

HARNESS = {"zz_verif_test.go": os.path.join(vlib.ROOT, "harness", "raftstore", "zz_verif_test.go"),
           "zz_verif_ts_test.go": os.path.join(vlib.ROOT, "harness", "raftstore", "zz_verif_ts_test.go")}
C = 0x737461626c657374          # first 8 bytes of "stablestore-"
U64 = 2**64 - 1
IDX_POOLS = [[1, 2, 3, 4, 5, 6, 7, 8, 9, 10], [254, 255, 256, 257, 65535, 65536, 2**32 - 1, 2**32], [C - 2, C - 1, C, C + 1, C + 2],
             [2**63 - 1, 2**63, 2**63 + 1], [U64 - 2, U64 - 1, U64], [0x7300000000000000, 0x7400000000000000, 0x73ffffffffffffff]]
SKEYS = [b"CurrentTerm", b"LastVoteTerm", b"LastVoteCand", b"", b"\x00", b"\xff\xff", b"x" * 40]
TEXTS = [b"", b"NICK alice", "PRIVMSG #c :grüße".encode(), b"x" * 300]


def hx(b):
    return b.hex() if b else "-"


def gen_entry(rng, idx):
    ty = rng.choice([0, 0, 0, 1, 2, 3, 4, 5, 5])    # every raft.LogType incl. LogConfiguration (5)
    if ty == 0:
        mid = rng.choice([0, 0, idx, 77])
        f = [mid, rng.choice([0, 1]), rng.choice([0, 5, 2**63]), 0, rng.randrange(0, 9), hx(rng.choice(TEXTS)), rng.choice([0, 1432323893000000000, -5]),
             rng.choice([0, 9, U64]), rng.choice([0, 3]), hx(rng.choice([b"", b"10.0.0.1:1234"]))]
        data = "m:%s:%s" % (rng.choice("jp"), ".".join(str(x) for x in f))
    else:
        data = "r:" + hx(rng.choice([b"", b"peer1", b"p\x01\x02", b"\x00\xff" * 5]))
    sec = rng.choice([-62135596800, 0, 1432323893, 1790000000])
    nsec = rng.choice([0, 1, 999999999, 123456789])
    return [str(idx), str(rng.choice([0, 1, 7, U64])), str(ty), data, hx(rng.choice([b"", b"ext", b"\x00"])), str(sec), str(nsec)]


def canon_entry(e):
    idx, term, ty, data, ext, sec, nsec = e
    if ty == "0":
        f = data.split(":", 2)[2].split(".")
        if f[0] == "0":
            f[0] = idx
        d = "M(" + ".".join(f) + ")"
    else:
        d = "R(" + data[2:] + ")"
    return "%s/%s/%s/%s/%s/%s.%s" % (idx, term, ty, d, ext, sec, nsec)


def gen_program(rng, length, kills):
    ops = ["open %d" % rng.choice([0, 1])]
    pool = list(rng.choice(IDX_POOLS))
    if rng.random() < 0.4:
        pool += rng.choice(IDX_POOLS)
    for _ in range(length):
        r = rng.random()
        if r < 0.25:
            n = rng.choice([1, 1, 2, 4])
            es = [gen_entry(rng, rng.choice(pool)) for _ in range(n)]
            ops.append("store %d %s" % (n, " ".join(" ".join(e) for e in es)))
        elif r < 0.30:
            ops.append("storeproto " + " ".join(gen_entry(rng, rng.choice(pool))))
        elif r < 0.45:
            ops.append("getlog %d" % rng.choice(pool + [0, 11, C]))
        elif r < 0.53:
            ops.append("first")
        elif r < 0.61:
            ops.append("last")
        elif r < 0.70:
            a, b = rng.choice(pool + [0, 1]), rng.choice(pool + [U64, 2**63])
            if rng.random() < 0.8 and a > b:
                a, b = b, a
            ops.append("delrange %d %d" % (a, b))
        elif r < 0.73:
            # the iterator the snapshot code reads the log with: [start, limit), empty when limit <= start
            a = rng.choice(pool + [0, 1])
            b = rng.choice(pool + [0, 1, U64, 2**63, a, a + 1]) if rng.random() < 0.5 else rng.choice(pool) + 1
            ops.append("bulk %d %d" % (a, b % (U64 + 1)))
        elif r < 0.76:
            ops.append("set %s %s" % (hx(rng.choice(SKEYS)), hx(rng.choice([b"", b"abc", b"\x00" * 8, b"node1:8001"]))))
        elif r < 0.81:
            ops.append("setu %s %d" % (hx(rng.choice(SKEYS)), rng.choice([0, 1, 7, U64, 2**40])))
        elif r < 0.86:
            ops.append("get %s" % hx(rng.choice(SKEYS)))
        elif r < 0.91:
            ops.append("getu %s" % hx(rng.choice(SKEYS)))
        elif r < 0.93:
            ops.append("fmt %d" % rng.choice(pool))
        elif r < 0.94:
            ops.append("keys")
        elif r < 0.95:
            ops.append("convert")
        elif r < 0.97 or not kills:
            ops.append("reopen %d" % rng.choice([0, 1]))
        else:
            ops.append("kill")
            ops.append("reopen %d" % rng.choice([0, 1]))
    return ops


def gen_upgrade_program(rng):
    """rolling upgrade: a JSON-mode store holding entries whose messages are JSON or already protobuf, and raft-internal
    entries, is converted to protobuf and every entry read back (both readers)"""
    ops = ["open 0"]
    idxs = sorted(rng.sample(range(1, 60), rng.choice([3, 5, 8])))
    for i in idxs:
        if rng.random() < 0.8:
            ops.append("store 1 " + " ".join(gen_entry(rng, i)))
        else:
            ops.append("storeproto " + " ".join(gen_entry(rng, i)))
    if rng.random() < 0.3:
        ops.append("setu %s %d" % (hx(rng.choice(SKEYS)), rng.choice([1, 7, 2**40])))
    ops.append(rng.choice(["convert", "reopen 1"]))
    for i in idxs:
        ops += ["getlog %d" % i, "fmt %d" % i]
    ops += ["first", "last"]
    if rng.random() < 0.5:
        ops += ["convert", "getlog %d" % idxs[0], "getlog %d" % idxs[-1]]
    return ops


def oracle(ops, outs):
    """the property's own reference: a plain in-memory map"""
    logs, stable = {}, {}
    for i, (op, out) in enumerate(zip(ops, outs)):
        f = op.split()
        if f[0] == "open":
            logs, stable = {}, {}
        elif f[0] in ("store", "storeproto"):
            es = f[2:] if f[0] == "store" else f[1:]
            for j in range(0, len(es), 7):
                logs[int(es[j])] = canon_entry(es[j:j + 7])
        elif f[0] == "getlog":
            want = ("ok " + logs[int(f[1])] + " readers-agree=1") if int(f[1]) in logs else "notfound"
            if out != want:
                return i, "getlog %s returned %s, stored %s" % (f[1], out[:120], want[:120])
        elif f[0] == "first":
            want = str(min(logs)) if logs else "0"
            if out != want:
                return i, "FirstIndex returned %s, expected %s" % (out, want)
        elif f[0] == "last":
            want = str(max(logs)) if logs else "0"
            if out != want:
                return i, "LastIndex returned %s, expected %s" % (out, want)
        elif f[0] == "bulk":
            a, b = int(f[1]), int(f[2])
            got = [int(k, 16) for k in out.split() if len(k) == 16]          # 8-byte keys = log indexes; longer ones are stable-store keys
            want = sorted(k for k in logs if a <= k < b)
            if got != want:
                return i, "GetBulkIterator(%d, %d) visited the log entries %s, stored in [start, limit): %s" % (a, b, got[:8], want[:8])
        elif f[0] == "delrange":
            a, b = int(f[1]), int(f[2])
            for k in [k for k in logs if a <= k <= b]:
                del logs[k]
        elif f[0] == "set":
            stable[f[1]] = f[2]
        elif f[0] == "setu":
            stable[f[1]] = int(f[2]).to_bytes(8, "big").hex()
        elif f[0] == "get":
            want = "nil" if f[1] not in stable else "v:" + stable[f[1]]
            if out != want:
                return i, "stable Get(%s) returned %s, last written %s" % (f[1], out, want)
        elif f[0] == "getu":
            v = stable.get(f[1])
            want = "0" if v is None else (str(int(v, 16)) if v != "-" and len(v) == 16 else "error")
            if out != want:
                return i, "stable GetUint64(%s) returned %s, expected %s" % (f[1], out, want)
        if out == "panic":
            return i, "`%s` panicked" % op[:60]
    return None


def run_go(exe, ops, d):
    """runs ops through the harness, one process per kill-delimited segment; returns output lines"""
    outp = os.path.join(d, "go.out")
    if os.path.exists(outp):
        os.remove(outp)
    seg, segs = [], []
    for o in ops:
        seg.append(o)
        if o == "kill":
            segs.append(seg)
            seg = []
    segs.append(seg)
    err = None
    for n, sg in enumerate(segs):
        if not sg:
            continue
        opsf = os.path.join(d, "seg%d.txt" % n)
        open(opsf, "w").write("\n".join(sg) + "\n")
        rc, out = vlib.run_harness(exe, opsf, outp, env_extra={"VERIF_TMP": d}, timeout=300)
        if sg[-1] == "kill":
            if rc == 0:
                err = "kill segment exited normally"
        elif rc != 0:
            err = "go harness exit %d: %s" % (rc, out[-1500:])
    return vlib.read_lines(outp) if os.path.exists(outp) else [], err


def run_lean(ops, d):
    opsf = os.path.join(d, "all.txt")
    open(opsf, "w").write("\n".join(ops) + "\n")
    rc, err = vlib.run_driver("store", opsf, os.path.join(d, "lean.out"))
    return vlib.read_lines(os.path.join(d, "lean.out")), (None if rc == 0 else err)


REGRESSION = [
    # fixed: DeleteRange across "stablestore-" wiped the stable store; MaxUint64 wrapped; short GetUint64 value panicked
    ["open 1", "setu 43757272656e745465726d 7", "store 1 5 1 1 r:- - 0 0", "delrange 1 %d" % 2**63, "getu 43757272656e745465726d", "getlog 5", "first",
     "store 1 5 1 1 r:- - 0 0", "delrange 1 %d" % U64, "getlog 5", "set 6b 616263", "getu 6b"],
    ["open 0", "store 2 3 1 0 m:j:0.0.5.0.2.4e49434b.0.9.0.- - 0 0 4 1 1 r:70656572 - 0 0", "fmt 3", "fmt 4", "reopen 1", "fmt 3", "fmt 4", "getlog 3", "getlog 4", "first", "last"],
]


def store_stage(run, nprog, plen, kills, label):
    """differential of the real LevelDBStore against the model + the in-memory-map oracle; used by C09 itself and,
    with fewer programs, by C05 (whose composition rests on the store contract, incl. the bulk iterator Persist reads with).
    Returns (exe_ok, corr_ok, bad or None, ops, di, progs)"""
    ok, exe, out = vlib.build_harness("raftstore", "internal/raftstore", HARNESS)
    run.obligation("go harness builds from /repo (internal/raftstore)", ok, out)
    if not ok:
        return False, False, None, [], None, []
    rng = run.rng
    progs = [list(p) for p in REGRESSION]
    for i in range(nprog):
        progs.append(gen_program(rng, rng.randrange(5, plen), kills=(i < kills)))
    for i in range(max(10, nprog // 5)):
        progs.append(gen_upgrade_program(rng))
    ops = [o for p in progs for o in p]
    d = vlib.workdir("c09-" + run.prop)
    gl, gerr = run_go(exe, ops, d)
    ll, lerr = run_lean(ops, d)
    shutil.rmtree(d, ignore_errors=True)
    di = vlib.first_diff(gl, ll)
    corr_ok = di is None and not gerr and not lerr and len(gl) == len(ops)
    run.obligation("%s: real LevelDBStore == Lean model on %d programs (%d ops, %d kill/reopen)" % (label, len(progs), len(ops), ops.count("kill")), corr_ok,
                   (gerr or lerr or "") + (" first difference at op %s `%s`: go=%s lean=%s" % (di, ops[di][:200] if di is not None and di < len(ops) else "", gl[di][:200] if di is not None and di < len(gl) else "<missing>", ll[di][:200] if di is not None and di < len(ll) else "<missing>") if di is not None else ""))
    bad = oracle(ops, gl)
    if bad is not None:
        i, why = bad
        start = max(j for j in range(i + 1) if ops[j].startswith("open "))
        bad = (why, ops[start:i + 1])
    return True, corr_ok, bad, ops, di, progs


def check(run):
    nprog, plen = (250, 40) if run.tier == "quick" else (6000, 80)
    proved = run.prove()
    ok, exe, out = vlib.build_harness("raftstore", "internal/raftstore", HARNESS)
    run.obligation("go harness builds from /repo (internal/raftstore)", ok, out)
    if not ok:
        run.violation("broken:harness-build", "the Go harness no longer builds against /repo", {"log": out[-2000:]}, False)
        return run.finish()
    rng = run.rng
    kills = 15 if run.tier == "quick" else 400
    progs = [list(p) for p in REGRESSION]
    for i in range(nprog):
        progs.append(gen_program(rng, rng.randrange(5, plen), kills=(i < kills)))
    for i in range(nprog // 5):
        progs.append(gen_upgrade_program(rng))
    ops = [o for p in progs for o in p]
    d = vlib.workdir("c09")
    gl, gerr = run_go(exe, ops, d)
    ll, lerr = run_lean(ops, d)
    shutil.rmtree(d, ignore_errors=True)
    di = vlib.first_diff(gl, ll)
    corr_ok = di is None and not gerr and not lerr and len(gl) == len(ops)
    run.obligation("correspondence: real LevelDBStore == Lean model on %d programs (%d ops, %d kill/reopen)" % (len(progs), len(ops), ops.count("kill")), corr_ok,
                   (gerr or lerr or "") + (" first difference at op %s `%s`: go=%s lean=%s" % (di, ops[di][:200] if di is not None and di < len(ops) else "", gl[di][:200] if di is not None and di < len(gl) else "<missing>", ll[di][:200] if di is not None and di < len(ll) else "<missing>") if di is not None else ""))
    bad = oracle(ops, gl)
    kinds = {}
    for o in ops:
        kinds[o.split()[0]] = kinds.get(o.split()[0], 0) + 1
    if bad is not None:
        i, why = bad
        # replay = the program containing op i, cut after i
        start = max(j for j in range(i + 1) if ops[j].startswith("open "))
        run.violation("oracle:" + why.split(" ")[0], why, {"kind": "store", "ops": ops[start:i + 1], "why": why}, True)
    elif not proved or not corr_ok:
        failed = [o[0] for o in run.failed_obligations()]
        run.violation("broken:" + (failed[0] if failed else "?")[:40], "proof or correspondence no longer checks: %s" % failed,
                      {"broken": failed, "first_diff_op": ops[di] if di is not None and di < len(ops) else None, "detail": [o[2][-1500:] for o in run.failed_obligations()]}, False)
    run.samples = [{"program": progs[2][:10]}, {"program": REGRESSION[0]}]
    run.coverage.update({"evaluations": len(ops), "distinct_nontrivial": len(set(tuple(p) for p in progs if len(p) > 4)), "traces_validated_against_impl": len(progs) if corr_ok else 0,
                         "op_kinds": kinds, "kill_reopen_points": ops.count("kill")})
    run.assumptions += ["goleveldb: sorted byte-string map, atomic batch writes, contents survive Close/Open and process kill (no power loss: writes are not fsynced)",
                        "protobuf / JSON codecs of raft.Log and robust.Message round-trip (validated by this run and C18, not proved)",
                        "ConvertToProto on garbage command payloads (NewMessageFromBytes panic) is not modelled"]
    return run.finish(rule="random programs of StoreLogs/StoreLogProto/GetLog/FirstIndex/LastIndex/DeleteRange/Set/Get/SetUint64/GetUint64/ConvertToProto/reopen(json|proto)/kill over small, byte-boundary, 0x737461626c657374±2, 2^63, 2^64-1 indexes; oracle = in-memory map; non-trivial = program > 4 ops; distinct by op list")


def replay(run, path):
    import json
    r = json.load(open(path))
    ops = r.get("replay", {}).get("ops", [])
    ok, exe, out = vlib.build_harness("raftstore", "internal/raftstore", HARNESS)
    d = vlib.workdir("c09r")
    gl, gerr = run_go(exe, ops, d)
    ll, lerr = run_lean(ops, d)
    shutil.rmtree(d, ignore_errors=True)
    for o, g, l in zip(ops, gl, ll):
        print("%-50s go=%s lean=%s" % (o[:50], g[:70], l[:70]))
    b = oracle(ops, gl)
    print("oracle:", b)
    return 1 if b or vlib.first_diff(gl, ll) is not None else 0
