"""C19: clock safeguard.  Proof over the regenerated definitions + differential run of the real
timesafeguard functions against the Lean model + soundness oracle on synthetic measurements."""
import os
import vlib

ET = 2_000_000_000
ZERO = -62135596800 * 10**9
HARNESS = {"zz_verif_test.go": os.path.join(vlib.ROOT, "harness", "timesafeguard", "zz_verif_test.go"),
           "zz_verif_net_test.go": os.path.join(vlib.ROOT, "harness", "timesafeguard", "zz_verif_net_test.go")}

# end-to-end scenarios for the part that is not modelled (collectTime / getServerTime over HTTPS): peers given by
# clock offset in ms or `down`; a peer that answers with a clock >= 2 s off must lead to a refusal whatever
# the other peers do, unreachable peers are ignored
NET = [("net 0 300", False), ("net 0 down", False), ("net down down", False), ("net 0 3600000", True), ("net 3600000 down", True), ("net down 0 -4000", True),
       ("net -3600000 0 down down", True), ("net 500 -500 down", False), ("net down 2600 0", True),
       # the -join path (SynchronizedWithMasterAndNetwork): first spec = the node being joined, whose status names the rest
       ("join 0", False), ("join 3600000", True), ("join -2600 0 0", True), ("join 0 0 300", False), ("join 0 down", False),
       ("join 0 3600000", True), ("join 0 down -4000", True), ("join 2500 down", True), ("join 300 0 down 0", False)]


def net_stage(run, exe):
    import shutil
    d = vlib.workdir("c19net")
    opsf, outp = os.path.join(d, "ops.txt"), os.path.join(d, "out.txt")
    open(opsf, "w").write("\n".join(o for o, _ in NET) + "\n")
    rc, out = vlib.run_harness(exe, opsf, outp, env_extra={"VERIF_TMP": d}, run="TestVerifTimeNet", timeout=120)
    gl = vlib.read_lines(outp) if os.path.exists(outp) else []
    shutil.rmtree(d, ignore_errors=True)
    if rc != 0 or len(gl) != len(NET):
        return ("harness", "network-level harness: exit %d, %d lines: %s" % (rc, len(gl), out[-600:]), None)
    for (o, must_refuse), g in zip(NET, gl):
        if must_refuse and g.startswith("accept"):
            return ("net-accepted", "`%s`: the node considers itself in sync although a peer that answered is more than 2 s off" % o, o)
        if not must_refuse and not g.startswith("accept"):
            return ("net-refused", "`%s`: refused although every peer that answered is within bounds: %s" % (o, g[:200]), o)
    return None


def gen_measurement(rng):
    """(start, end, result, true offset or None, answered)"""
    kind = rng.random()
    base = rng.choice([0, 1432323893 * 10**9, 1790000000 * 10**9, rng.randrange(-2**62, 2**62)])
    d1 = rng.choice([0, 1, 1000, 10**6, 5 * 10**8, 10**9, ET - 1, ET, ET + 1, rng.randrange(0, 3 * ET)])
    d2 = rng.choice([0, 1, 1000, 10**6, 5 * 10**8, 10**9, rng.randrange(0, 3 * ET)])
    if kind < 0.12:
        return (base, base + d1 + d2, ZERO, None, False)
    if kind < 0.55:
        off = rng.choice([0, 1, -1, ET - 1, -(ET - 1), ET, -ET, ET + 1, rng.randrange(-2 * ET, 2 * ET), rng.randrange(-ET, ET)])
        # keep most cases near the decision boundary
        if rng.random() < 0.5:
            off = rng.choice([1, -1]) * max(0, ET - d1 - d2 + rng.randrange(-3, 4))
    elif kind < 0.8:
        off = rng.choice([1, -1]) * rng.randrange(0, 4 * ET)
    else:
        off = rng.choice([2**63 - 1, -2**63, 2**63, -2**63 - 1, 2**64, -2**64, 2**63 - ET, 3600 * 10**9, -3600 * 10**9,
                          292 * 365 * 86400 * 10**9, -292 * 365 * 86400 * 10**9, 374 * 365 * 86400 * 10**9,
                          rng.randrange(-2**65, 2**65), ZERO - base])
    t = base + d1
    return (base, base + d1 + d2, t + off, off, True)


def gen_op(rng):
    n = rng.choice([0, 1, 1, 2, 2, 3, 5])
    ms = [gen_measurement(rng) for _ in range(n)]
    dis = 1 if rng.random() < 0.2 else 0
    line = "sync %d %d " % (dis, n) + " ".join("%d %d %d" % (m[0], m[1], m[2]) for m in ms)
    return line.strip(), ms, dis


REGRESSION = [
    # fixed finding: int64 wrap accepted peers ≥ 292 years off
    ("sync 0 1 1790000000000000000 1790000000500000000 13569465600000000000", [(1790000000000000000, 1790000000500000000, 13569465600000000000, 13569465600000000000 - 1790000000000000000, True)], 0),
    ("sync 0 1 1790000000000000000 1790000000500000000 %d" % (ZERO + 5), [(1790000000000000000, 1790000000500000000, ZERO + 5, ZERO + 5 - 1790000000000000000, True)], 0),
]


def oracle(line_out, ms, dis):
    """Property oracle on the *implementation's* answer: accepted (safeguard enabled) implies every
    answered peer's true offset is < ET; refused implies the listed peers are exactly the answered
    ones whose worst-case bound (|result-start| + rtt, exact integers) reaches ET."""
    probs = []
    verdict = line_out.split("verdict=")[1] if "verdict=" in line_out else "?"
    if dis == 0:
        if verdict == "ok":
            for i, m in enumerate(ms):
                if m[4] and m[2] != ZERO and abs(m[3]) >= ET:
                    probs.append("accepted although peer %d is off by %d ns" % (i, m[3]))
        elif verdict.startswith("refuse:"):
            listed = [int(x) for x in verdict.split(":")[1].split(",") if x]
            exact = [i for i, m in enumerate(ms) if m[2] != ZERO and abs(m[2] - m[0]) + (m[1] - m[0]) >= ET]
            if listed != exact:
                probs.append("reported peers %s, offending (exact arithmetic) %s" % (listed, exact))
            if not exact:
                probs.append("refused although no answered peer reaches the bound")
    else:
        if verdict != "ok":
            probs.append("refused although the safeguard is disabled")
    return probs


def check(run):
    n = 4000 if run.tier == "quick" else 400000
    proved = run.prove()
    ok, exe, out = vlib.build_harness("timesafeguard", "internal/timesafeguard", HARNESS)
    run.obligation("go harness builds from /repo (internal/timesafeguard)", ok, out)
    cases = list(REGRESSION) + [gen_op(run.rng) for _ in range(n)]
    ops = [c[0] for c in cases]
    nontrivial = set()
    corr_ok = None
    if ok:
        gl, ll, di, err = vlib.differential(run, "time", ops, exe, "time")
        corr_ok = (di is None and err is None and len(gl) == len(ops))
        run.obligation("correspondence: Go timesafeguard == Lean model on %d measurement sets" % len(ops), corr_ok,
                       err or ("first difference at op %s: %s | go=%s | lean=%s" % (di, ops[di] if di is not None and di < len(ops) else "", gl[di] if di is not None and di < len(gl) else "<missing>", ll[di] if di is not None and di < len(ll) else "<missing>")))
        # search / oracle on the implementation's own answers (always, cheap)
        bad = None
        for i, (c, g) in enumerate(zip(cases, gl)):
            pr = oracle(g, c[1], c[2])
            if "refuse" in g or any(m[4] and abs(m[3]) < ET for m in c[1]):
                nontrivial.add(c[0])
            if pr and bad is None:
                bad = (i, pr)
        nb = net_stage(run, exe)
        run.obligation("end to end: SynchronizedWithNetwork / SynchronizedWithMasterAndNetwork over HTTPS against fake peers (in sync / off / unreachable), %d scenarios" % len(NET), nb is None, nb[1] if nb else "")
        if nb is not None and bad is None:
            run.violation("oracle:" + nb[0], nb[1], {"kind": "timenet", "op": nb[2], "why": nb[1]}, nb[0] != "harness")
        # the peer's side of the measurement: the theorems assume that the reported clock reading is taken while the
        # request is being served (Start <= reading <= End on one clock); the real status handler is asked repeatedly
        import api_run
        pb = None
        aok, aexe, aout = api_run.build()
        run.obligation("go harness builds from /repo (package main: api.HTTP status handler)", aok, aout)
        if aok:
            pops = ["start", "statustime 6 120", "statustime 3 0"]
            pl, perr = api_run.run_ops(aexe, pops, tag="c19p", timeout=60)
            if perr or len(pl) != len(pops):
                pb = ("harness", perr or "short output", pops)
            else:
                for o, g in zip(pops[1:], pl[1:]):
                    k = dict(x.split("=", 1) for x in g.split() if "=" in x)
                    w = k.get("within", "0/1").split("/")
                    if k.get("status") != "200" or w[0] != w[1]:
                        pb = pb or ("peer-reading", "the JSON status of a running node reported a clock reading outside the request's own start..end in %s of %s requests (up to %s ms off): a joining node computes its offset from a stale reading" % (
                            int(w[1]) - int(w[0]), w[1], k.get("worstms")), pops)
            run.obligation("peer side: the clock reading in the JSON status is taken while the request is served (9 requests to the real handler)", pb is None, pb[1] if pb else "")
            if pb is not None and bad is None and nb is None:
                run.violation("oracle:" + pb[0], pb[1], {"kind": "api", "ops": pb[2], "why": pb[1]}, pb[0] != "harness")
                nb = pb
        if bad is not None:
            i, pr = bad
            run.violation("oracle:" + pr[0].split(" ")[0], pr[0], {"kind": "time", "op": ops[i], "measurements": cases[i][1], "go_output": gl[i], "problems": pr}, True)
        elif (not corr_ok or not proved) and nb is None:
            failed = [o[0] for o in run.failed_obligations()]
            run.violation("broken:" + (failed[0] if failed else "?")[:40], "proof or correspondence no longer checks: %s" % failed,
                          {"kind": "time", "broken": failed, "first_diff_op": ops[di] if di is not None and di < len(ops) else None,
                           "go": gl[di] if di is not None and di < len(gl) else None, "lean": ll[di] if di is not None and di < len(ll) else None}, False)
        run.samples = [{"op": ops[i], "go": gl[i] if i < len(gl) else None} for i in (0, 2, 3, 4)]
        run.coverage.update({"evaluations": len(ops), "distinct_nontrivial": len(nontrivial), "traces_validated_against_impl": len(ops) if corr_ok else 0,
                             "refused": sum(1 for g in gl if "refuse" in g), "accepted": sum(1 for g in gl if g.endswith("verdict=ok"))})
    else:
        run.violation("broken:harness-build", "the Go harness no longer builds against /repo", {"log": out[-2000:]}, False)
    run.assumptions += ["time.Time is modelled as unbounded integer nanoseconds; time.Time.Sub saturates at ±(2^63-1) ns as documented",
                        "the peer's answer is produced at a local instant between Start and End (network delays arbitrary, non-negative); the real status handler is asked 9 times per run and its reading must lie within each request",
                        "collectTime/getServerTime (HTTP, goroutines) are not modelled: a failed request leaves Result zero (exercised end to end against fake HTTPS peers)"]
    return run.finish(rule="generated measurement sets (true offset, request delay, response delay; extremes ±2^63, year 1, year 2400); non-trivial = set containing an in-bound answered peer or a refusal; distinct by op text")


def replay(run, path):
    import json
    r = json.load(open(path))
    op = r.get("replay", {}).get("op")
    ok, exe, out = vlib.build_harness("timesafeguard", "internal/timesafeguard", HARNESS)
    if r.get("replay", {}).get("kind") == "api":
        import api_run
        aok, aexe, aout = api_run.build()
        pops = r["replay"]["ops"]
        pl, perr = api_run.run_ops(aexe, pops, tag="c19pr", timeout=60)
        bad = False
        for o, g in zip(pops, pl):
            print(o, "->", g)
            if "within=" in g:
                w = g.split("within=")[1].split()[0].split("/")
                bad = bad or w[0] != w[1]
        return 1 if bad else 0
    if r.get("replay", {}).get("kind") == "timenet":
        import shutil
        d = vlib.workdir("c19r")
        opsf, outp = os.path.join(d, "ops.txt"), os.path.join(d, "out.txt")
        open(opsf, "w").write(op + "\n")
        vlib.run_harness(exe, opsf, outp, env_extra={"VERIF_TMP": d}, run="TestVerifTimeNet", timeout=60)
        print("op:", op, "\ngo:", vlib.read_lines(outp) if os.path.exists(outp) else None)
        shutil.rmtree(d, ignore_errors=True)
        return 0
    gl, ll, di, err = vlib.differential(run, "replay", [op], exe, "time")
    print("op:  ", op)
    print("go:  ", gl)
    print("lean:", ll)
    return 0 if di is None else 1
