"""C14: IRC state stays consistent (unique nicks, symmetric membership, no empty channels)."""
import re
import irc_check
import gen_irc


def counts(dump):
    mc = int(re.search(r" mc=(\d+)", dump).group(1))
    ms = int(re.search(r" ms=(\d+)", dump).group(1))
    rev = int(re.search(r"CF rev=(\d+)", dump).group(1))
    return len(re.findall(r"\| C ", dump)), len(re.findall(r"\| S ", dump)), (rev, mc), (rev, ms)


def oracle(h, g, l):
    prev = None       # (index, channels, sessions, mc, ms) at the previous dump of this history
    for j, (op, go, le) in enumerate(zip(h, g, l)):
        if op == "R":
            prev = None
        if op == "D" and " mc=" in go:
            nc, ns, mc, ms = counts(go)
            if prev is not None:
                pj, pc, ps, pmc, pms = prev
                # the configured limits: the number of channels / sessions never grows beyond the limit in force
                if mc[1] > 0 and mc == pmc and nc > pc and nc > mc[1]:
                    ent = [irc_check.txt(o)[:60] for o in h[pj + 1:j] if o.startswith("E")]
                    return j, "limit:channels", "%d channels with MaxChannels = %d (there were %d before %s)" % (nc, mc[1], pc, ent[-3:])
                if ms[1] > 0 and ms == pms and ns > ps and ns > ms[1]:
                    ent = [irc_check.txt(o)[:60] for o in h[pj + 1:j] if o.startswith("E")]
                    return j, "limit:sessions", "%d sessions with MaxSessions = %d (there were %d before %s)" % (ns, ms[1], ps, ent[-3:])
            prev = (j, nc, ns, mc, ms)
    for j, (op, go, le) in enumerate(zip(h, g, l)):
        if op == "W" and go.startswith("walk bad"):
            if "tainted" in le or le == "skipped":
                continue        # SVSNICK onto a nickname in use (outside the property's quantifier), or not decidable here
            return j, "walk:" + go.split("; ")[0].split(" ", 2)[2].split(" ")[0], "consistency walk on the real IRCServer failed: " + go[9:300]
    return None


def check(run):
    n, L = (300, 120) if run.tier == "quick" else (6000, 300)
    orig = gen_irc.gen_histories

    def with_dumps(rng, commands, n, length, focus=None):
        hs, kinds = orig(rng, commands, n, length, focus=focus)
        out = []
        for k, h in enumerate(hs):
            if k % 4 == 0:      # a quarter of the histories is dumped after every entry (limits, per entry)
                hh = []
                for o in h:
                    hh.append(o)
                    if o.startswith("E"):
                        hh.append("D")
                out.append(hh)
            else:
                out.append(h)
        return out, kinds
    gen_irc.gen_histories = with_dumps
    try:
        return _check(run, n, L)
    finally:
        gen_irc.gen_histories = orig


def _check(run, n, L):
    return irc_check.run_property(run, oracle, n, L,
        rule="random histories (sessions, registration, services links with pseudo-clients, all commands x plausible/random shapes, config changes, deletions, message-of-death entries) with the in-package consistency walk after random entries and at the end; non-trivial = history > 5 ops; distinct by op list")


def replay(run, path):
    return irc_check.replay(run, path, oracle)
