"""C14: IRC state stays consistent (unique nicks, symmetric membership, no empty channels)."""
import irc_check


def oracle(h, g, l):
    for j, (op, go, le) in enumerate(zip(h, g, l)):
        if op == "W" and go.startswith("walk bad"):
            if "tainted" in le or le == "skipped":
                continue        # SVSNICK onto a nickname in use (outside the property's quantifier), or not decidable here
            return j, "walk:" + go.split("; ")[0].split(" ", 2)[2].split(" ")[0], "consistency walk on the real IRCServer failed: " + go[9:300]
    return None


def check(run):
    n, L = (300, 120) if run.tier == "quick" else (6000, 300)
    return irc_check.run_property(run, oracle, n, L,
        rule="random histories (sessions, registration, services links with pseudo-clients, all commands x plausible/random shapes, config changes, deletions, message-of-death entries) with the in-package consistency walk after random entries and at the end; non-trivial = history > 5 ops; distinct by op list")


def replay(run, path):
    return irc_check.replay(run, path, oracle)
