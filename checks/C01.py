"""C01: replica determinism — same committed log, byte-identical output everywhere."""
import os
import shutil
import vlib
import irc_run
import irc_check
import gen_irc


def run_lean_perm(ops):
    d = vlib.workdir("c01-leanperm")
    opsf = os.path.join(d, "ops.txt")
    open(opsf, "w").write("\n".join(ops) + "\n")
    lf = os.path.join(d, "lean.out")
    rc, err = vlib.run_driver("ircperm", opsf, lf, timeout=1200)
    ll = vlib.read_lines(lf) if os.path.exists(lf) else []
    shutil.rmtree(d, ignore_errors=True)
    return ll, (None if rc == 0 else err)


def check(run):
    n, L = (250, 120) if run.tier == "quick" else (6000, 300)
    reruns = 3 if run.tier == "quick" else 12
    proved = run.prove()
    ok, exe, out = irc_run.build()
    run.obligation("go harness builds from /repo (package main + internal/ircserver overlay)", ok, out)
    if not ok:
        run.violation("broken:harness-build", "the Go harness no longer builds against /repo", {"log": out[-2000:]}, False)
        return run.finish()
    hs, kinds = gen_irc.gen_histories(run.rng, run.facts.get("commands", []), n, L)
    # histories rich in services links with several pseudo-clients and channel members (map sizes > 1)
    ops = [o for h in hs for o in h]
    runs = []
    for k in range(reruns):
        gl, gerr = irc_run.run_go(exe, ops, tag="c01-go%d" % k)
        runs.append((gl, gerr))
    base, berr = runs[0]
    bad = None
    for k in range(1, reruns):
        gl, gerr = runs[k]
        di = vlib.first_diff(base, gl)
        if di is not None and bad is None:
            bad = (di, base[di] if di < len(base) else "<missing>", gl[di] if di < len(gl) else "<missing>")
    run.obligation("%d independent executions of the real state machine on %d histories (%d ops) produce identical reply ids, bytes, recipient sets and state dumps" % (reruns, len(hs), len(ops)),
                   bad is None and not berr, berr or (("op %d `%s`: %s" % (bad[0], irc_check.txt(ops[bad[0]])[:60] or ops[bad[0]], irc_run.explain_diff(bad[1], bad[2]))) if bad else ""))
    ll, lerr = irc_run.run_lean(ops, tag="c01")
    lp, perr = run_lean_perm(ops)
    res = irc_run.compare(hs, base, ll)
    resp = irc_run.compare(hs, base, lp)
    mism = [(h, r) for h, r in zip(hs, res) if r["mismatch"]]
    mismp = [(h, r) for h, r in zip(hs, resp) if r["mismatch"]]
    corr_ok = not mism and not lerr
    perm_ok = not mismp and not perr
    d1 = ""
    if mism:
        j, op, g, l = mism[0][1]["mismatch"]
        d1 = "history op %d %r: %s" % (j, irc_check.txt(op)[:60], irc_run.explain_diff(g, l))
    run.obligation("correspondence: real code == Lean model (%d ops compared)" % sum(r["compared"] for r in res), corr_ok, lerr or d1)
    d2 = ""
    if mismp:
        j, op, g, l = mismp[0][1]["mismatch"]
        d2 = "history op %d %r: %s" % (j, irc_check.txt(op)[:60], irc_run.explain_diff(g, l))
    run.obligation("the Lean model with every map reordered after every entry still agrees with the real code (order insensitivity of the model)", perm_ok, perr or d2)
    if bad is not None:
        di = bad[0]
        # replay = the history containing the differing op
        pos = 0
        hist = None
        for h in hs:
            if pos <= di < pos + len(h):
                hist = h[:di - pos + 1]
            pos += len(h)
        run.violation("nondeterminism:" + (irc_check.txt(ops[di]).split(" ")[0] or ops[di])[:20].upper(), "two executions of the same history differ at %r: %s" % (irc_check.txt(ops[di])[:80] or ops[di], irc_run.explain_diff(bad[1], bad[2])),
                      {"kind": "irc", "ops": hist, "readable": [irc_check.txt(o) or o for o in (hist or [])][-12:], "run_a": bad[1][:600], "run_b": bad[2][:600]}, True)
    elif not proved or not corr_ok or not perm_ok:
        failed = [o[0] for o in run.failed_obligations()]
        run.violation("broken:" + (failed[0] if failed else "?")[:40], "proof or correspondence no longer checks: %s" % failed, {"broken": failed, "detail": [o[2][-1500:] for o in run.failed_obligations()]}, False)
    run.samples = [{"history_excerpt": [irc_check.txt(o) or o for o in hs[2][:14]]}]
    run.coverage.update({"evaluations": len(ops) * reruns, "distinct_nontrivial": len(set(tuple(h) for h in hs if len(h) > 5)), "traces_validated_against_impl": len(hs) if corr_ok else 0,
                         "executions_per_history": reruns, "entry_kinds": kinds})
    run.assumptions += ["Go re-randomises map iteration order on every range statement, so repeated executions sample different orders (the site classification and the reordered model cover all orders)",
                        "the server start time appears only in numeric 003 (masked in the comparison)"]
    return run.finish(rule="random histories (several clients, IRC operators, services links with several pseudo-clients, config changes) executed %d times on fresh instances of the real code, once on the Lean model and once on the Lean model with all maps reordered after every entry; all outputs (ids, bytes, recipient sets) and canonical state dumps must agree; non-trivial = history > 5 ops" % reruns)


def replay(run, path):
    import json
    r = json.load(open(path))
    ops = r.get("replay", {}).get("ops", [])
    ok, exe, out = irc_run.build()
    seen = set()
    for k in range(40):
        gl, _ = irc_run.run_go(exe, ops, tag="c01r")
        seen.add(tuple(gl))
    print("%d distinct outputs in 40 executions" % len(seen))
    return 1 if len(seen) > 1 else 0
