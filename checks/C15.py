"""C15: every line sent to clients is a single well-formed IRC line."""
import os
import re
import random
import json
import irc_check
import vlib

API_HARNESS = {"zz_verif_resume_test.go": os.path.join(vlib.ROOT, "harness", "api", "zz_verif_resume_test.go")}
SEPS = ["\r", "\n", "\x00"]
ALPHA = list("abcXYZ 019:#!@,*") + ["\u00e9", "\u20ac", "\U0001f600", "\x01", "\x7f", "\t"]


def gen_text(rng):
    """text as a client may post it: clean, cut somewhere, separators only, separators beyond byte 512, ..."""
    k = rng.randrange(10)
    n = rng.choice([0, 1, 2, 5, 20, 80, 300, 600, 1500]) if k < 8 else rng.randrange(0, 40)
    body = [rng.choice(ALPHA) for _ in range(n)]
    if k in (0, 1):
        pass                                      # clean text: must come back unchanged
    elif k == 2:
        body = [rng.choice(SEPS) for _ in range(rng.randrange(1, 4))] + body     # separator first
    elif k == 3:
        body = body + [rng.choice(SEPS)]                                        # separator last
    else:
        for _ in range(rng.randrange(1, 4)):
            body.insert(rng.randrange(0, len(body) + 1), rng.choice(SEPS))
    return "".join(body)


def firstline_stage(run):
    """the real firstLine helper of the POST/DELETE handlers against the model's `firstLine` (which the theorems
    C15_firstLine_clean / C15_api_entry_clean are about), and the cut judged on the real output alone"""
    ok, exe, out = vlib.build_harness("api_resume", "internal/api", API_HARNESS)
    if not ok:
        return ("harness", "api harness does not build: " + out[-300:], []), 0, False
    n = 1500 if run.tier == "quick" else 40000
    rng = random.Random(run.seed * 7919 + 15)        # its own stream: the histories below do not depend on this stage
    texts = ["", "\r", "a\rb", "a\nb", "a\x00b", "PRIVMSG #c :hi\rQUIT", "x" * 600 + "\r\nQUIT", "\u00e9\n\u00e9"] + [gen_text(rng) for _ in range(n)]
    ops = ["firstline " + (t.encode().hex() or "-") for t in texts]
    gl, ll, di, err = vlib.differential(run, "firstline", ops, exe, "resume", harness_run="TestVerifResume")
    corr_ok = di is None and err is None and len(gl) == len(ops)
    bad = None
    cut = 0
    for t, g in zip(texts, gl):
        try:
            o = bytes.fromhex("" if g == "-" else g)
        except ValueError:
            bad = bad or ("firstline:harness", "firstline op answered %r" % g[:80], t)
            continue
        if o != t.encode():
            cut += 1
        if any(c in o for c in (10, 13, 0)) and bad is None:
            bad = ("firstline:control", "firstLine(%r) = %r still contains CR/LF/NUL: the text becomes the data of a log entry and is relayed to clients" % (t[:80], o[:80]), t)
        elif not t.encode().startswith(o) and bad is None:
            bad = ("firstline:notprefix", "firstLine(%r) = %r is not a prefix of the posted text" % (t[:80], o[:80]), t)
        elif not any(c in t for c in "\r\n\x00") and o != t.encode() and bad is None:
            bad = ("firstline:cutclean", "firstLine(%r) = %r: a text without CR/LF/NUL was changed" % (t[:80], o[:80]), t)
    detail = err or ""
    if di is not None:
        detail += " first difference at `%s`: go=%s lean=%s" % (ops[di][:120], gl[di][:120] if di < len(gl) else "<missing>", ll[di][:120] if di < len(ll) else "<missing>")
    run.obligation("correspondence: real firstLine == Lean `firstLine` on %d posted texts (%d of them cut)" % (len(ops), cut), corr_ok, detail)
    return bad, len(ops), corr_ok

CMD_RE = re.compile(rb"^(?::[^ \x00\r\n]* )?([A-Za-z]+|[0-9]{3})(?: |$)")


def clean_input(h):
    for op in h:
        f = op.split()
        if f[0] == "E" and f[1] in ("1", "2"):
            t = irc_check.txt(op)
            if any(c in t for c in "\r\n\x00"):
                return False
    return True


def oracle(h, g, l):
    if not clean_input(h):
        return None          # text that cannot arrive through the HTTP API (it cuts at CR/LF/NUL)
    for j, (op, go) in enumerate(zip(h, g)):
        msgs = irc_check.parse_out(go) if go.startswith("out") else None
        if not msgs:
            continue
        for (i, r, data, rc) in msgs:
            if len(data) > 510:
                return j, "line:toolong", "output line of %d bytes for %r" % (len(data), irc_check.txt(op)[:80])
            if b"\n" in data or b"\r" in data or b"\x00" in data:
                return j, "line:control", "output line contains CR/LF/NUL: %r (input %r)" % (data[:120], irc_check.txt(op)[:80])
            if not CMD_RE.match(data):
                return j, "line:grammar", "output line does not start with [prefix] command: %r (input %r)" % (data[:120], irc_check.txt(op)[:80])
    return None


def check(run):
    n, L = (300, 120) if run.tier == "quick" else (8000, 300)
    bad, nfl, corr_ok = firstline_stage(run)
    run.api_label = "the real firstLine cut judged on its own output over %d texts: no CR/LF/NUL left, a prefix of the text, clean text unchanged" % nfl
    run.api_exp = (bad[0], bad[1], ["firstline " + (bad[2].encode().hex() or "-")] if bad[0] != "firstline:harness" or bad[2] else []) if bad else None
    return irc_check.run_property(run, oracle, n, L,
        rule="random histories whose client text is cut at CR/LF/NUL as the HTTP API does (long, non-ASCII, control-character, leading-colon texts in every parameter position); every output line of every entry is checked: <= 510 bytes, no CR/LF/NUL, [':'prefix' '] command; non-trivial = history > 5 ops; distinct by op list")


def replay(run, path):
    r = json.load(open(path))
    ops = r.get("replay", {}).get("ops", [])
    if ops and ops[0].startswith("firstline "):
        ok, exe, out = vlib.build_harness("api_resume", "internal/api", API_HARNESS)
        gl, ll, di, err = vlib.differential(run, "replay", ops, exe, "resume", harness_run="TestVerifResume")
        rc = 0
        for o, g, l in zip(ops, gl, ll):
            t = bytes.fromhex(o.split()[1].replace("-", ""))
            go = bytes.fromhex(g.replace("-", "")) if re.fullmatch(r"[0-9a-f-]*", g) else g.encode()
            print("firstLine(%r)\n    go:   %r\n    lean: %s" % (t, go, l))
            if any(c in go for c in (10, 13, 0)) or not t.startswith(go) or (not any(c in t for c in (10, 13, 0)) and go != t):
                rc = 1
        return rc
    return irc_check.replay(run, path, oracle)
