"""C15: every line sent to clients is a single well-formed IRC line."""
import re
import irc_check

CMD_RE = re.compile(rb"^(?::[^ \x00\r\n]* )?([A-Za-z]+|[0-9]{3})(?: |$)")


def clean_input(h):
    for op in h:
        f = op.split()
        if f[0] == "E" and f[1] in ("1", "2"):
            t = irc_check.txt(op)
            if any(c in t for c in "\r\n\x00"):
                return False
    return True


def oracle(h, g, l):
    if not clean_input(h):
        return None          # text that cannot arrive through the HTTP API (it cuts at CR/LF/NUL)
    for j, (op, go) in enumerate(zip(h, g)):
        msgs = irc_check.parse_out(go) if go.startswith("out") else None
        if not msgs:
            continue
        for (i, r, data, rc) in msgs:
            if len(data) > 510:
                return j, "line:toolong", "output line of %d bytes for %r" % (len(data), irc_check.txt(op)[:80])
            if b"\n" in data or b"\r" in data or b"\x00" in data:
                return j, "line:control", "output line contains CR/LF/NUL: %r (input %r)" % (data[:120], irc_check.txt(op)[:80])
            if not CMD_RE.match(data):
                return j, "line:grammar", "output line does not start with [prefix] command: %r (input %r)" % (data[:120], irc_check.txt(op)[:80])
    return None


def check(run):
    n, L = (300, 120) if run.tier == "quick" else (8000, 300)
    return irc_check.run_property(run, oracle, n, L,
        rule="random histories whose client text is cut at CR/LF/NUL as the HTTP API does (long, non-ASCII, control-character, leading-colon texts in every parameter position); every output line of every entry is checked: <= 510 bytes, no CR/LF/NUL, [':'prefix' '] command; non-trivial = history > 5 ops; distinct by op list")


def replay(run, path):
    return irc_check.replay(run, path, oracle)
