"""C07: a message of death is contained — marked durably, skipped on every replay."""
import os
import shutil
import subprocess
import vlib
import irc_run
import C02

T0 = C02.T0
S = 10**9


def hx(s):
    return s.encode().hex() if s else "-"


def gen_scenario(rng):
    """ops for the FSM harness; PANIC entries (`P`) at random positions, for sessions in different
    states (not yet registered: refused with 451, no crash; registered / operator: crash)"""
    ops = ["reset"]
    idx, ts = 0, T0
    kinds = ["c", "n", "u", "j"]
    npanic = 0
    n = rng.randrange(6, 22)
    for i in range(n):
        idx += 1
        ts += rng.choice([1, 5, 60, 700]) * S
        r = rng.random()
        if kinds and r < 0.8:
            k = kinds.pop(0)
        elif r < 0.25 and npanic < 3:
            k = "P"
            npanic += 1
        elif r < 0.35:
            k, kinds = "c", ["n", "u"] if rng.random() < 0.7 else []
        else:
            k = rng.choice(["p", "p", "j", "n", "x600"])
        ops.append("commit %d %d %s" % (idx, ts, k))
        if rng.random() < 0.15:
            ops += ["snapshot %d" % (ts + rng.choice([0, 20, 5000]) * S), rng.choice(["persist", "persist", "persistfail"])]
        if rng.random() < 0.2:
            ops.append("status")
    ops += ["status", "types", "dump"]
    if rng.random() < 0.6:
        # the marked entries must also survive compaction: fold (almost) everything into a snapshot, restore from it
        ops += ["snapshot %d" % (ts + rng.choice([5000, 100000]) * S), "persist", "restart", "status"]
    return ops


def run_go(exe, ops, d, json_mode=False):
    """runs ops in as many processes as needed: a process dies at every crashing PANIC entry"""
    outp = os.path.join(d, "go.out")
    if os.path.exists(outp):
        os.remove(outp)
    env = {"VERIF_TMP": d, "TMPDIR": d, "ROBUSTIRC_TESTING_ENABLE_PANIC_COMMAND": "1"}
    if json_mode:
        env["VERIF_JSON"] = "1"
    lines, crashes, rest, first = [], [], list(ops), True
    guard = 0
    while rest and guard < 40:
        guard += 1
        opsf = os.path.join(d, "seg.txt")
        open(opsf, "w").write("\n".join(rest) + "\n")
        if os.path.exists(outp):
            os.remove(outp)
        rc, out = vlib.run_harness(exe, opsf, outp, env_extra=env, timeout=300, run="TestVerifFsm")
        got = vlib.read_lines(outp) if os.path.exists(outp) else []
        if not first:
            got = got[1:]            # the synthetic `resume`
            done = len(got)
            cur = rest[1:]
        else:
            done = len(got)
            cur = rest
        lines += got
        if done >= len(cur):
            if rc != 0:
                return lines, crashes, "harness exit %d after finishing: %s" % (rc, out[-800:])
            break
        crashed = cur[done]
        if not (crashed.startswith("commit") and crashed.endswith(" P")):
            return lines, crashes, "process died at `%s` (exit %d): %s" % (crashed, rc, out[-800:])
        crashes.append((crashed, rc))
        lines.append("ok 0")         # the crashed commit: no output of its own
        rest = ["resume"] + cur[done + 1:]
        first = False
    return lines, crashes, None


def model_ops(ops):
    """the same schedule for the Lean bookkeeping model: a crash is a restart"""
    out = []
    for o in ops:
        if o in ("types", "dump"):
            continue
        out.append(o)
    return out


def check(run):
    nscen = 14 if run.tier == "quick" else 400
    proved = run.prove()
    ok, exe, out = vlib.build_harness("fsm", "", C02.FILES, extra_overlay=irc_run.EXTRA)
    run.obligation("go harness builds from /repo (package main)", ok, out)
    if not ok:
        run.violation("broken:harness-build", "the Go harness no longer builds against /repo", {"log": out[-2000:]}, False)
        return run.finish()
    scen = [["reset", "commit 1 %d c" % (T0 + S), "commit 2 %d n" % (T0 + 2 * S), "commit 3 %d u" % (T0 + 3 * S), "commit 4 %d j" % (T0 + 4 * S), "commit 5 %d P" % (T0 + 5 * S),
             "status", "commit 6 %d p" % (T0 + 6 * S), "status", "types", "marker 1", "dump"]]
    scen += [gen_scenario(run.rng) for _ in range(nscen)]
    bad, total_crashes, evals = None, 0, 0
    modes = {}
    for k, sc in enumerate(scen):
        d = vlib.workdir("c07")
        # every third scenario runs with JSON-encoded stores (the tombstone is always written as protobuf)
        jm = (k % 3 == 2)
        modes[id(sc)] = jm
        gl, crashes, err = run_go(exe, sc, d, json_mode=jm)
        shutil.rmtree(d, ignore_errors=True)
        evals += len(sc)
        total_crashes += len(crashes)
        if err:
            bad = bad or (sc, "harness", err)
            continue
        # 1. exactly the PANIC entries of registered sessions are marked, everything else is untouched
        types = gl[sc.index("types")] if "types" in sc and len(gl) > sc.index("types") else ""
        tmap = {}
        for t in types.split(" "):
            f = t.split(":")
            if len(f) >= 2:
                tmap[int(f[0])] = f[1:]
        crashed_idx = {int(c[0].split()[1]) for c in crashes}
        for o in sc:
            f = o.split()
            if f[0] != "commit":
                continue
            i = int(f[1])
            if f[3] == "r":
                continue
            t = tmap.get(i)
            if t is None or t[0] == "missing":
                bad = bad or (sc, "lost", "entry %d is missing from the durable log" % i)
            elif i in crashed_idx:
                if t[0] != "5" or t[2] != hx("PANIC") or t[1] != str(i):
                    bad = bad or (sc, "mark", "crashing entry %d is stored as type %s cmid %s data %s (expected message of death, same id/data)" % (i, t[0], t[1], t[2]))
            elif t[0] == "5":
                bad = bad or (sc, "mark", "entry %d was marked as message of death although it did not crash" % i)
        for (c, rc) in crashes:
            if rc == 0:
                bad = bad or (sc, "exit", "process survived the crashing entry `%s`" % c)
        # 2. after every restart the state equals a replay of the (marked) log, and new entries keep being applied
        empty = True      # FSM.Snapshot refuses (error, nothing changes) while the irclog copy holds no entry
        for o, g in zip(sc, gl):
            if o == "status" and "same=1" not in g:
                bad = bad or (sc, "state", "state differs from a replay of the marked log: " + g[:200])
            if o.startswith("commit") and not o.endswith(" r"):
                empty = False
            if o == "reset":
                empty = True
            if o.startswith("snapshot") and g.startswith("ok "):
                a, b = g.split()[1:3]
                empty = int(a) == int(b) + 1
            if g.startswith("panic") or (g.startswith("error") and not (o.startswith("snapshot") and empty)):
                bad = bad or (sc, "op", "`%s` -> %s" % (o, g[:200]))
        # 3. the duplicate-detection marker advances for the skipped entry
        for o, g in zip(sc, gl):
            if o.startswith("marker") and crashes:
                want = max(int(c[0].split()[1]) for c in crashes)
                later = [x for x in sc if x.startswith("commit") and int(x.split()[1]) > want and x.split()[3] in ("n", "u", "j", "p")]
                if not later and g != str(want):
                    bad = bad or (sc, "marker", "LastPostMessage is %s, the skipped entry has client message id %d" % (g, want))
    if bad:
        sc, sig, why = bad
        run.violation("oracle:" + sig, why, {"kind": "death", "ops": sc, "json_stores": modes.get(id(sc), False), "why": why}, True)
    # bookkeeping correspondence of the same schedules (crash = restart in the model)
    mops = []
    for sc in scen:
        for o in sc:
            if o in ("types", "dump") or o.startswith("marker"):
                continue
            mops.append(o)
            if o.startswith("commit") and o.endswith(" P"):
                pass
    run.obligation("crash/restart runs: %d scenarios, %d process crashes at PANIC entries, every oracle held" % (len(scen), total_crashes), bad is None, bad[2] if bad else "")
    if bad is None and not proved:
        failed = [o[0] for o in run.failed_obligations()]
        run.violation("broken:" + (failed[0] if failed else "?")[:40], "proof no longer checks: %s" % failed, {"broken": failed, "detail": [o[2][-1500:] for o in run.failed_obligations()]}, False)
    run.samples = [{"scenario": scen[0]}, {"scenario": scen[1][:14]}]
    run.coverage.update({"evaluations": evals, "distinct_nontrivial": len(set(tuple(s) for s in scen if any(o.endswith(" P") for o in s))), "traces_validated_against_impl": len(scen) if bad is None else 0,
                         "process_crashes": total_crashes})
    run.assumptions += ["raft replays the durable log in order after a restart (no snapshot) or restores the newest snapshot first", "glog.Fatalf terminates the process after the entry has been rewritten (observed: exit status != 0)",
                        "LevelDB keeps the rewritten entry across the process exit"]
    return run.finish(rule="child processes with ROBUSTIRC_TESTING_ENABLE_PANIC_COMMAND=1 apply generated logs through the real FSM.Apply on real LevelDB stores; PANIC entries at random positions (not-yet-registered sessions: refused, no crash; registered: crash), snapshots with successful/failed persist in between; after each crash a new process restores/replays; non-trivial = scenario with at least one crashing entry; distinct by op list")


def replay(run, path):
    import json
    r = json.load(open(path))
    ops = r.get("replay", {}).get("ops", [])
    ok, exe, out = vlib.build_harness("fsm", "", C02.FILES, extra_overlay=irc_run.EXTRA)
    d = vlib.workdir("c07r")
    gl, crashes, err = run_go(exe, ops, d, json_mode=bool(r.get("replay", {}).get("json_stores")))
    shutil.rmtree(d, ignore_errors=True)
    for o, g in zip(ops, gl):
        print("%-40s %s" % (o[:40], g[:200]))
    print("crashes:", crashes, "err:", err)
    return 0
