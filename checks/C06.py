"""C06: no client line (and no protocol-conforming services line) can crash the state machine."""
import irc_check

# documented parameter counts of the services protocol (scmd_*.go header comments); a line from a
# services link is protocol-conforming when it carries a prefix and at least that many parameters
SERVICES_MIN = {"NICK": 4, "JOIN": 1, "PART": 1, "MODE": 1, "KILL": 2, "KICK": 2, "PRIVMSG": 1, "NOTICE": 1, "INVITE": 2, "TOPIC": 3,
                "SVSNICK": 2, "SVSJOIN": 2, "SVSPART": 2, "SVSMODE": 2, "SVSHOLD": 1, "QUIT": 0, "PING": 0}


# MinParams of the services commands in the dispatch table of the pinned tree (also pinned by the theorem
# C06_services_minparams).  Where the table of the tree under test admits FEWER parameters than that, the server
# now accepts lines it used to refuse with 461: those lines count as conforming for the failing-input search.
EXPECTED_SERVER_MIN = {"INVITE": 2, "JOIN": 0, "KICK": 2, "KILL": 1, "MODE": 0, "NICK": 0, "NOTICE": 0, "PART": 0, "PING": 0, "PRIVMSG": 0, "QUIT": 0,
                       "SVSHOLD": 1, "SVSJOIN": 2, "SVSMODE": 2, "SVSNICK": 2, "SVSPART": 2, "TOPIC": 3}
TABLE = {}


def needed(cmd):
    need = SERVICES_MIN.get(cmd, 0)
    tbl, exp = TABLE.get(cmd), EXPECTED_SERVER_MIN.get(cmd)
    if tbl is not None and exp is not None and tbl < exp:
        need = min(need, tbl)
    return need


def conforming(text):
    t = text.strip("\r\n")
    if not t.startswith(":"):
        return False
    parts = t.split(" ")
    if len(parts) < 2 or len(parts[0]) < 2:
        return False
    cmd = parts[1].upper()
    rest = t.split(" ", 2)[2] if len(parts) > 2 else ""
    if " :" in " " + rest:
        mid, _, _ = (" " + rest).partition(" :")
        n = len([x for x in mid.split(" ") if x != ""]) + 1 if mid.strip() else 1
        # count as ParseMessage does: empty middle params count too
        n = (len(mid[1:].split(" ")) if mid[1:] else 0) + 1
    else:
        n = len(rest.split(" ")) if rest != "" or len(parts) > 2 else 0
    if cmd == "NICK" and n == 1:
        return True
    return n >= needed(cmd)


def oracle(h, g, l):
    servers = set()
    for j, (op, go) in enumerate(zip(h, g)):
        f = op.split()
        if f[0] != "E":
            continue
        t = irc_check.txt(op)
        sid = f[3]
        if go.startswith("panic"):
            if f[1] == "2" and sid in servers and not conforming(t):
                return None      # non-conforming services line: outside the property; state is undefined afterwards
            return j, "panic:" + (t.split(" ")[0] if not t.startswith(":") else t.split(" ")[1] if " " in t else "?").upper()[:20], "applying %r (entry type %s, session %s) panicked" % (t[:120], f[1], sid)
        # a session becomes a services link when its SERVER command is answered with a SERVER line
        if f[1] == "2" and t.upper().startswith("SERVER ") and go.startswith("out") and "out 0" not in go and "4552524f52" not in go.lower():
            servers.add(sid)
    return None


def check(run):
    import vlib
    ok, facts, _ = vlib.ensure_extract()
    for c in (facts or {}).get("commands", []):
        if c["Name"].startswith("server_"):
            TABLE[c["Name"][7:]] = c["MinParams"]
    n, L = (300, 120) if run.tier == "quick" else (8000, 300)
    lowered = sorted(c for c, v in TABLE.items() if c in EXPECTED_SERVER_MIN and v < EXPECTED_SERVER_MIN[c])
    return irc_check.run_property(run, oracle, n, L, gen_kwargs=({"focus": lowered[0]} if lowered else None),
        rule="random histories; every entry is applied through the real FSM.applyRobustMessage under recover(); a panic on an entry of a client session, or on a protocol-conforming line of a services link, is a violation; non-trivial = history > 5 ops; distinct by op list")


def replay(run, path):
    return irc_check.replay(run, path, oracle)
