"""C11: session routes need the session secret; admin routes the network password."""
import vlib
import api_run
from api_run import hx, PW, kv

PRIVATE = [("GET", "/"), ("GET", "/status"), ("GET", "/status/getmessage"), ("GET", "/status/sessions"), ("GET", "/status/irclog"), ("GET", "/status/state"),
           ("GET", "/irclog"), ("GET", "/snapshot"), ("GET", "/leader"), ("GET", "/config"), ("GET", "/metrics"), ("POST", "/raft/AppendEntries"),
           ("POST", "/join"), ("POST", "/part"), ("POST", "/quit"), ("POST", "/config"), ("POST", "/kill"), ("GET", "/nonexistent"), ("DELETE", "/config")]
CREDS = ["none", "empty", "wrong", "other", "ok"]


# with a non-zero cool-off the throttle bookkeeping is live: a refused request must not touch it either
BOOT_THROTTLED = ["start", "postconfig %s 0 %s" % (PW, hx('PostMessageCooloff = "3ms"\nSessionExpiration = "600s"\n[IRC]\n[[IRC.Operators]]\nName = "op"\nPassword = "secret"\n'))]


def served_paths(run):
    """(method, path) pairs outside /robustirc/v1/: the documented private routes, every pattern registered on
    http.DefaultServeMux anywhere in the binary's import closure (regenerated), paths below subtree patterns,
    and a few arbitrary ones"""
    out = [(m, p) for (m, p) in PRIVATE if p != "/snapshot"]          # /snapshot has a side effect; its guard is the same dispatcher
    for r in run.facts.get("routes", {}).get("defaultMux", []) or []:
        pat = r.get("Pattern", "")
        meth = "GET"
        if " " in pat:
            meth, pat = pat.split(" ", 1)
        if not pat.startswith("/") or pat.startswith("/robustirc/v1/"):
            continue
        out.append((meth, pat))
        if pat.endswith("/"):
            out += [("GET", pat + "goroutine?debug=1"), ("GET", pat + "heap"), ("POST", pat + "symbol")]
    out += [("GET", "/debug/"), ("GET", "/debug/pprof/cmdline"), ("GET", "/debug/vars"), ("GET", "/debug/requests"), ("GET", "/debug/events"),
            ("GET", "/robustirc"), ("GET", "/robustirc/v2/session"), ("GET", "//robustirc/v1/../status"), ("GET", "/" + "".join(run.rng.choice("abcxyz/._-") for _ in range(12)))]
    seen, res = set(), []
    for x in out:
        if x not in seen:
            seen.add(x)
            res.append(x)
    return res


def judge_served(ops, gl):
    for o, g in zip(ops, gl):
        f = o.split()
        path, auth, st = bytes.fromhex(f[3]).decode(), f[4], kv(g).get("status")
        if auth in ("none", "wrong") and st != "401":
            return "unauthenticated", "%s %s with %s answered %s on a running robustirc process (expected 401: not below /robustirc/v1/, so only the network password opens it)%s" % (
                f[2], path, "no credentials" if auth == "none" else "a wrong network password", st, "; the body contains the network password" if kv(g).get("leak") == "1" else ""), [o]
        if auth == "pw" and st == "401":
            return "locked-out", "%s %s with the network password answered 401" % (f[2], path), [o]
    return None


def served_stage(run):
    """real robustirc processes: every path outside /robustirc/v1/ is refused without the network password"""
    import C05
    okn, nexe, bindir, nout = C05.build_net(run)
    run.obligation("robustirc binary and the network harness build from /repo", okn, nout or "")
    if not okn:
        return ("harness", "network harness does not build", []), 0
    pairs = served_paths(run)
    # the correct password only where the request has no effect on the node (POST /quit would stop it, profile/trace block for 30 s)
    safe = {"/", "/status", "/leader", "/config", "/metrics", "/nonexistent", "/debug/pprof/", "/debug/pprof/cmdline", "/debug/vars", "/debug/"}
    ops = ["rawget %d %s %s %s" % (i % 3, m, p.encode().hex(), a) for i, (m, p) in enumerate(pairs)
           for a in ("none", "wrong", "pw") if a != "pw" or (m == "GET" and p in safe)]
    gl, err = C05.run_net(nexe, bindir, ops, 240)
    if gl is None or err or len(gl) != len(ops):
        return ("harness", "network run failed: %s" % (err or "short output"), ops), 0
    return judge_served(ops, gl), len(ops)


def scenario(rng, tier):
    ops = list(BOOT_THROTTLED)
    ops += ["create a", "create b", "create d", "post a ok 1 " + hx("NICK alice"), "post a ok 2 " + hx("USER u 0 * :real"), "post a ok 3 " + hx("JOIN #c"),
            "post d ok 1 " + hx("NICK dora"), "delete d ok " + hx("gone")]
    probes = []   # (op index, kind, target, cred)
    targets = ["a", "b", "d", "0x7777777", "12345678901234567890123", "abc", ""]
    for t in targets:
        for cred in CREDS:
            if cred == "ok" and t not in ("a", "b", "d"):
                continue
            spec = cred if cred != "other" else ("other:b" if t != "b" else "other:a")
            kinds = ["post", "get", "delete"] if not (cred == "ok" and t in ("a", "b")) else ["post", "get"]
            for k in kinds:
                if t == "" and k != "delete":
                    continue
                ops.append("dump")
                if k == "post":
                    ops.append("post %s %s %d %s" % (t or "-", spec, rng.randrange(100, 10**6), hx("PRIVMSG #c :probe")))
                elif k == "get":
                    ops.append("get %s %s 0.0" % (t or "-", spec))
                else:
                    ops.append("delete %s %s %s" % (t or "-", spec, hx("bye")))
                probes.append((len(ops) - 1, k, t, cred))
                ops.append("dump")
    # finally: the correct secret does work (and deleting with it ends the session)
    ops += ["delete b ok " + hx("bye"), "post b ok 9 " + hx("NICK x"), "creds a", "creds b", "creds d", "marker a"]
    # private routes
    priv = []
    n = 0
    for (m, p) in PRIVATE:
        for pw in ["-", "wrongpw", PW]:
            if pw == "wrongpw" and tier == "quick" and n % 3:
                n += 1
                continue
            n += 1
            if pw != PW and len([x for x in priv if x[3] != PW]) % 7 == 6:
                ops.append("restart")     # a fresh api.HTTP: resets the wrong-password back-off
            if p in ("/quit", "/part", "/kill", "/join", "/snapshot", "/raft/AppendEntries") and pw == PW:
                continue                  # would really shut down / reconfigure the node
            ops.append("private %s %s %s" % (m, p, pw))
            priv.append((len(ops) - 1, m, p, pw))
    return ops, probes, priv


def check(run):
    proved = run.prove()
    ok, exe, out = api_run.build()
    run.obligation("go harness builds from /repo (package main: raft + api.HTTP)", ok, out)
    if not ok:
        run.violation("broken:harness-build", "the Go harness no longer builds against /repo", {"log": out[-2000:]}, False)
        return run.finish()
    bad = None
    evals = 0
    nscen = 1 if run.tier == "quick" else 12
    decisions = []
    for _ in range(nscen):
        ops, probes, priv = scenario(run.rng, run.tier)
        gl, err = api_run.run_ops(exe, ops, tag="c11")
        evals += len(ops)
        if err or len(gl) != len(ops):
            bad = bad or ("harness", err or "output has %d lines for %d ops" % (len(gl), len(ops)), ops)
            continue
        creds = {}
        for o, g in zip(ops, gl):
            if o.startswith("creds ") and " " in g:
                creds[o.split()[1]] = g.split(" ")
        for (i, k, t, cred) in probes:
            r = kv(gl[i])
            st = int(r.get("status", -1))
            before, after = gl[i - 1], gl[i + 1]
            entitled = cred == "ok" and t in ("a", "b")
            if entitled:
                if st != 200:
                    bad = bad or ("refused", "request with the correct secret was refused: `%s` -> %s" % (ops[i][:60], gl[i]), ops[:i + 1])
                continue
            if st == 200:
                bad = bad or ("accepted", "`%s` succeeded without the session's secret (%s)" % (ops[i][:60], gl[i][:100]), ops[:i + 1])
            if r.get("newentries", "0") != "0":
                bad = bad or ("effect", "refused request `%s` appended a log entry" % ops[i][:60], ops[:i + 1])
            if before != after:
                bad = bad or ("effect", "refused request `%s` changed the state" % ops[i][:60], ops[:i + 1])
            if k == "get" and "msgs=" in gl[i] and r.get("msgs", "0") not in ("0", ""):
                bad = bad or ("leak", "refused GetMessages `%s` returned messages" % ops[i][:60], ops[:i + 1])
        # a session that does not exist yet cannot be read either: GET for the id the next session will get,
        # with a made-up secret, while that session is being created (ids are raft indexes, hence guessable)
        fops = ["getfuture bogus 900", "getfuture %s 900" % ("ab" * 64)]
        fl, ferr = api_run.run_ops(exe, list(api_run.BOOT) + ["create a"] + fops, tag="c11f")
        evals += len(fops)
        for o, g in zip(fops, fl[-len(fops):] if not ferr else []):
            r = kv(g)
            if r.get("hit") == "true" and r.get("get") == "200":
                bad = bad or ("future", "GET for a session that did not exist yet, with a made-up secret, was answered 200 once the session was created (%s)" % g,
                              list(api_run.BOOT) + ["create a", o])
        if ferr:
            bad = bad or ("harness", ferr, fops)
        for (i, m, p, pw) in priv:
            st = int(kv(gl[i]).get("status", -1))
            if pw != PW and st != 401:
                bad = bad or ("private", "%s %s without the network password answered %d" % (m, p, st), ops[:i + 1])
            if pw == PW and st == 401:
                bad = bad or ("private", "%s %s with the network password answered 401" % (m, p), ops[:i + 1])
        # the same decisions from the Lean model
        lp = gl[ops.index("creds a") - 1]
        for (i, k, t, cred) in probes:
            ids = {"a": creds.get("a"), "b": creds.get("b"), "d": creds.get("d")}
            idstr = ids[t][0] if t in ids and ids[t] else (t or "-")
            auth = ids[t][1] if t in ids and ids[t] else ""
            exists = 1 if t in ("a", "b") else 0
            hdr = {"none": "none", "empty": "empty", "wrong": "v:" + ("ab" * 128).encode().hex(), "ok": "v:" + auth.encode().hex() if auth else "empty",
                   "other": "v:" + ((creds.get("b") if t != "b" else creds.get("a")) or ["", "zz"])[1].encode().hex()}[cred]
            sid = int(idstr, 0) if idstr[:2] == "0x" or idstr.isdigit() and len(idstr) < 20 else 0
            # lastProcessed from the dump before the probe
            lpv = int(gl[i - 1].split(" | ")[0].split("=")[1].split(".")[0])
            decisions.append(("%s %d %s %s %s %d %d %d %d" % (k, exists, hx(auth), hdr, idstr if idstr else "-", sid, 0, lpv, 424242), gl[i], ops[i]))
    if decisions:
        ll, lerr = api_run.lean_decisions([d[0] for d in decisions])
        mism = None
        for (line, g, op), l in zip(decisions, ll):
            gs, ls = kv(g), kv(l)
            gprop = "1" if gs.get("newentries", "0") != "0" else "0"
            if gs.get("status") != ls.get("status") or (op.split()[0] != "get" and gprop != ls.get("proposes")):
                mism = mism or "`%s`: go %s, model %s" % (op[:70], g[:60], l)
        run.obligation("correspondence: api.HTTP status/proposal decisions == Lean decision model on %d requests" % len(decisions), mism is None and not lerr, mism or lerr or "")
        if (mism or lerr) and bad is None:
            run.violation("broken:correspondence", "handler decisions differ from the model: %s" % (mism or lerr), {"detail": mism or lerr}, False)
    sbad, sn = served_stage(run)
    evals += sn
    run.obligation("running robustirc processes: %d requests to paths outside /robustirc/v1/ (documented private routes, every DefaultServeMux registration in the binary, arbitrary paths) answer 401 without the network password" % sn,
                   sbad is None, sbad[1] if sbad else "")
    if bad:
        sig, why, rops = bad
        run.violation("oracle:" + sig, why, {"kind": "api", "ops": rops, "why": why}, True)
    elif sbad:
        run.violation("oracle:served-" + sbad[0], sbad[1], {"kind": "net", "ops": sbad[2], "why": sbad[1]}, sbad[0] != "harness")
    elif not proved:
        failed = [o[0] for o in run.failed_obligations()]
        run.violation("broken:" + (failed[0] if failed else "?")[:40], "proof obligations no longer check: %s" % failed, {"broken": failed, "detail": [o[2][-1500:] for o in run.failed_obligations()]}, False)
    run.samples = [{"request": d[2], "answer": d[1][:80]} for d in decisions[:6]]
    run.coverage.update({"evaluations": evals, "distinct_nontrivial": len(set(d[2].split()[0] + d[2].split()[2] for d in decisions)) + len(PRIVATE),
                         "traces_validated_against_impl": len(decisions), "exhaustive": True,
                         "matrix": "public: {post,get,delete} x targets {logged-in, fresh, deleted, not-yet-seen, overlong, non-numeric, empty} x creds {none, empty, wrong, other session's, correct}; private: %d method/path pairs x {no auth, wrong, correct}" % len(PRIVATE)})
    run.assumptions += ["net/http routing and BasicAuth parsing as documented", "CreateSession's 128 random bytes are unguessable and distinct per session",
                        "a single-node raft for the request matrix: proxying to a leader is not exercised there; the served-routes stage runs three real processes"]
    return run.finish(rule="full request matrix on the real handlers (httptest + in-process raft); refused requests must answer non-200, append no log entry and leave the canonical state dump unchanged; distinct = (route, credential kind) pairs")


def replay(run, path):
    import json
    r = json.load(open(path))
    ops = r.get("replay", {}).get("ops", [])
    if r.get("replay", {}).get("kind") == "net":
        import C05
        okn, nexe, bindir, nout = C05.build_net(run)
        gl, err = C05.run_net(nexe, bindir, ops, 240)
        for o, g in zip(ops, gl or []):
            print("%s %s [%s] -> %s" % (o.split()[2], bytes.fromhex(o.split()[3]).decode(), o.split()[4], g))
        b = judge_served(ops, gl or [])
        print("oracle:", b[1] if b else None)
        return 1 if b else 0
    ok, exe, out = api_run.build()
    gl, err = api_run.run_ops(exe, ops, tag="c11r")
    for o, g in zip(ops, gl):
        if not o.startswith("dump"):
            print("%-70s %s" % (o[:70], g[:100]))
    print(err)
    return 0
