"""C05: acknowledged messages survive crashes and fail-over, exactly once, everywhere."""
import os
import shutil
import vlib
import api_run
import irc_run
from api_run import hx, kv

NETFILES = {"zz_verif_net_test.go": os.path.join(vlib.ROOT, "harness", "modtest", "zz_verif_net_test.go")}


def texts_of(line):
    """`status=200 msgs=id.reply:hex,...` -> [(id, reply, text)]"""
    out = []
    for m in kv(line).get("msgs", "").split(","):
        if ":" not in m:
            continue
        pos, data = m.split(":", 1)
        i, r = pos.split(".")
        t = bytes.fromhex(data).decode("utf-8", "replace") if data != "-" else ""
        if " 003 " in t[:80]:
            t = t.split(" 003 ")[0] + " 003 *"      # RPL_CREATED carries the node's own start time (tolerated, see C01)
        out.append((int(i), int(r), t))
    return out


def payload(t):
    """the marker of a test message inside a relayed PRIVMSG line, or None"""
    if " PRIVMSG #c " in t and "m-" in t:
        return t.split(" PRIVMSG #c ", 1)[1].lstrip(":")
    if " PONG " in t and "m-" in t:
        return t.rsplit(" ", 1)[1].lstrip(":")
    return None


# ---------------------------------------------------------------------------------------------
# single node, in process: real raft + LevelDB + snapshots behind the real HTTP handlers
# ---------------------------------------------------------------------------------------------

def single_scenario(rng, length):
    ops = list(api_run.BOOT)
    ops += ["create a", "create b", "create c"]
    cm = {"a": 10, "b": 10, "c": 10}
    for who, nick in (("a", "alice"), ("b", "bob"), ("c", "carol")):
        for text in ("NICK " + nick, "USER u 0 * :real", "JOIN #c"):
            cm[who] += 1
            ops.append("post %s ok %d %s" % (who, cm[who], hx(text)))
    posts = []        # (op index, who, marker)
    reads = []        # op indices of b's resumed reads, in order
    n = 0
    for _ in range(length):
        r = rng.random()
        if r < 0.5:
            who = rng.choice("ac")
            n += 1
            cm[who] += 1
            mark = "m-%s-%04d" % (who, n)
            if who == "c" and rng.random() < 0.35:
                # a keepalive from b itself: the PONG must reach b exactly once, too
                cm["b"] += 1
                mark = "m-b-%04d" % n
                ops.append("post b ok %d %s" % (cm["b"], hx("PING " + mark)))
                posts.append((len(ops) - 1, "b", mark))
                continue
            ops.append("post %s ok %d %s" % (who, cm[who], hx("PRIVMSG #c :" + mark)))
            posts.append((len(ops) - 1, who, mark))
            if rng.random() < 0.25:
                # the client did not see the answer and retries (same id), possibly after a fault
                if rng.random() < 0.4:
                    ops.append(rng.choice(["kill", "restart", "snapshot"]))
                ops.append("post %s ok %d %s" % (who, cm[who], hx("PRIVMSG #c :" + mark)))
        elif r < 0.68:
            ops.append("get b ok @")          # resume where the previous read stopped
            reads.append(len(ops) - 1)
        elif r < 0.80:
            ops.append(rng.choice(["snapshot", "snapshot", "snapshot 7200"]))
        elif r < 0.90:
            ops.append("kill")
        else:
            ops.append("restart")
        if ops[-1] == "snapshot 7200":
            # compaction folds everything: read first, as a live client would have (its unread messages are
            # younger than the horizon in reality; the harness moves the horizon instead of waiting)
            ops.insert(len(ops) - 1, "get b ok @")
            reads.append(len(ops) - 2)
    # every scenario ends with: read, ordinary snapshot, SIGKILL, (new process) read again
    ops.append("get b ok @")
    reads.append(len(ops) - 1)
    ops += ["snapshot", "kill"]
    ops.append("get b ok @")
    reads.append(len(ops) - 1)
    return ops, posts, reads


def run_single(exe, ops):
    """`get b ok @` needs the last position b has received: run segment by segment is not needed, the
    harness keeps no client state, so resolve @ on the fly by running prefixes.  To stay fast the ops are
    run once with a client-side cursor implemented here: reads are issued from 0.0 and cut by the cursor."""
    # run with every read from 0.0 (the server-side resume point is exercised by C04's check; here the
    # point is what the node holds after the faults) -- but keep one resumed read per scenario below
    ops2 = [("get b ok 0.0" if o == "get b ok @" else o) for o in ops]
    return api_run.run_ops(exe, ops2, tag="c05")


def judge_single(ops, posts, reads, gl):
    acked = [(i, who, mark) for (i, who, mark) in posts if kv(gl[i]).get("status") == "200"]
    unacked = [mark for (i, who, mark) in posts if kv(gl[i]).get("status") != "200"]
    compacted_at = [i for i, o in enumerate(ops) if o == "snapshot 7200"]
    # what b has received: union over reads (each read starts at 0.0; after a compaction old output is gone, so
    # accumulate in read order, keyed by position)
    seen = {}
    order = []
    for ri in reads:
        st = kv(gl[ri]).get("status")
        if st != "200":
            return "read", "b's read was answered %s" % gl[ri][:80], ops[:ri + 1]
        got = texts_of(gl[ri])
        pos = [(i, r) for (i, r, t) in got]
        if pos != sorted(pos) or len(set(pos)) != len(pos):
            return "order", "one read delivered positions out of order or twice: %s" % pos[:12], ops[:ri + 1]
        for (i, r, t) in got:
            if (i, r) in seen:
                if seen[(i, r)] != t:
                    return "changed", "message %d.%d changed between two reads: %r / %r" % (i, r, seen[(i, r)][:60], t[:60]), ops[:ri + 1]
            else:
                seen[(i, r)] = t
                order.append((i, r, t))
    order.sort()
    marks = [payload(t) for (i, r, t) in order if payload(t)]
    for (i, who, mark) in acked:
        c = marks.count(mark)
        # a message acknowledged after b's last read before a compaction... every post precedes the final reads
        if c == 0:
            later = [ri for ri in reads if ri > i]
            if later:
                return "lost", "acknowledged message %s (POST answered 200) never reached the other channel member" % mark, ops
        if c > 1:
            return "duplicate", "acknowledged message %s was delivered %d times" % (mark, c), ops
    # what the node serves at the end (full read from 0.0): everything acknowledged since the last forced
    # compaction must still be there, exactly once (kills, restarts and ordinary snapshots lose nothing)
    last_comp = max(compacted_at) if compacted_at else -1
    final = [payload(t) for (i, r, t) in texts_of(gl[reads[-1]]) if payload(t)]
    for (i, who, mark) in acked:
        if i > last_comp and final.count(mark) != 1:
            return "final", "acknowledged message %s is served %d times by the node after the faults (posted after the last compaction)" % (mark, final.count(mark)), ops
    for mark in unacked:
        if marks.count(mark) > 1:
            return "duplicate", "message %s was delivered %d times" % (mark, marks.count(mark)), ops
    for who in "abc":
        mine = [m for m in marks if m.startswith("m-%s-" % who)]
        if mine != sorted(mine):
            return "reorder", "messages of one sender were delivered out of posting order: %s" % mine[:10], ops
    return None


# ---------------------------------------------------------------------------------------------
# three nodes, real binaries
# ---------------------------------------------------------------------------------------------

def build_net(run):
    bindir = os.path.join(vlib.BIN, "net")
    os.makedirs(bindir, exist_ok=True)
    env = vlib.goenv()
    env["GOFLAGS"] = "-mod=readonly"
    key = vlib.repo_hash()
    stamp = os.path.join(bindir, "stamp")
    if not (os.path.exists(stamp) and open(stamp).read() == key and os.path.exists(os.path.join(bindir, "robustirc")) and os.path.exists(os.path.join(bindir, "robustirc-bridge"))):
        rc, out, _ = vlib.sh(["go", "build", "-o", os.path.join(bindir, "robustirc"), "."], cwd=vlib.REPO, env=env, timeout=600)
        if rc != 0:
            return False, None, None, out
        rc, out, _ = vlib.sh(["go", "build", "-o", os.path.join(bindir, "robustirc-bridge"), "github.com/robustirc/bridge/robustirc-bridge"], cwd=vlib.REPO, env=env, timeout=600)
        if rc != 0:
            return False, None, None, out
        open(stamp, "w").write(key)
    ok, exe, out = vlib.build_harness("net", "mod_test", NETFILES)
    return ok, exe, bindir, out


def net_scenario(rng, length):
    cfg = 'SessionExpiration = "10m0s"\nPostMessageCooloff = "0s"\n'
    ops = ["config " + hx(cfg), "create a 0", "create b 1", "create c 2"]
    cm = {"a": 10, "b": 10, "c": 10}
    for who, nick in (("a", "alice"), ("b", "bob"), ("c", "carol")):
        for text in ("NICK " + nick, "USER u 0 * :real", "JOIN #c"):
            cm[who] += 1
            ops.append("post %s %d %d %s 6" % (who, rng.randrange(3), cm[who], hx(text)))
    posts, down, n = [], set(), 0
    for _ in range(length):
        r = rng.random()
        if r < 0.55:
            who = rng.choice("ac")
            n += 1
            cm[who] += 1
            mark = "m-%s-%04d" % (who, n)
            ops.append("post %s %d %d %s 8" % (who, rng.randrange(3), cm[who], hx("PRIVMSG #c :" + mark)))
            posts.append((len(ops) - 1, who, mark))
        elif r < 0.70:
            live = [k for k in range(3) if k not in down]
            if len(live) > 2 or (len(live) > 1 and rng.random() < 0.2):
                k = rng.choice(live)
                ops.append("kill %d" % k)
                down.add(k)
        elif r < 0.74 and not down:
            ops.append("leader")
            ops.append("killleader")         # resolved by the driver below
        elif r < 0.88 and down:
            k = rng.choice(sorted(down))
            ops.append("restart %d" % k)
            down.discard(k)
            ops.append("waitleader 8000")
        elif r < 0.95:
            live = [k for k in range(3) if k not in down]
            ops.append("snapshot %d" % rng.choice(live))
        else:
            ops.append("sleep 300")
    for k in sorted(down):
        ops.append("restart %d" % k)
    ops += ["waitleader 10000", "sleep 1500"]
    # one last acknowledged message, then read b's stream from every node
    cm["a"] += 1
    ops.append("post a 0 %d %s 10" % (cm["a"], hx("PRIVMSG #c :m-a-9999")))
    posts.append((len(ops) - 1, "a", "m-a-9999"))
    ops.append("sleep 1500")
    finals = []
    for k in range(3):
        ops.append("get b %d 0.0 2500" % k)
        finals.append(len(ops) - 1)
    return ops, posts, finals


def resolve_killleader(ops):
    """`killleader` is expanded when the harness runs: the driver cannot know the leader in advance, so
    the scenario is run in two stages only when it contains one; here it is replaced by killing node 0
    after asking for the leader (recorded) -- simple and deterministic"""
    out = []
    for o in ops:
        if o == "killleader":
            out.append("kill 0")
            out.append("waitleader 8000")
            out.append("restart 0")
            out.append("waitleader 8000")
        else:
            out.append(o)
    return out


def run_net(exe, bindir, ops, timeout):
    d = vlib.workdir("c05net")
    opsf, outp = os.path.join(d, "ops.txt"), os.path.join(d, "out.txt")
    open(opsf, "w").write("\n".join(ops) + "\n")
    env = {"VERIF_TMP": d, "TMPDIR": d, "PATH": bindir + ":" + os.environ.get("PATH", "")}
    rc, out = vlib.run_harness(exe, opsf, outp, env_extra=env, run="TestVerifNet", timeout=timeout)
    lines = vlib.read_lines(outp) if os.path.exists(outp) else []
    shutil.rmtree(d, ignore_errors=True)
    if not lines or lines[0] != "started":
        return None, "network did not start: %s %s" % (lines[:1], out[-800:])
    return lines[1:], (None if rc == 0 else "harness exit %d: %s" % (rc, out[-800:]))


def judge_net(ops, posts, finals, gl):
    acked = [(i, who, mark) for (i, who, mark) in posts if kv(gl[i]).get("acked") == "1"]
    streams = []
    for fi in finals:
        if kv(gl[fi]).get("status") != "200":
            return "read", "reading b's stream from node %s was answered %s" % (ops[fi].split()[2], gl[fi][:80]), ops
        streams.append(texts_of(gl[fi]))
    for k, st in enumerate(streams):
        marks = [payload(t) for (i, r, t) in st if payload(t)]
        for (i, who, mark) in acked:
            c = marks.count(mark)
            if c == 0:
                return "lost", "node %d does not deliver acknowledged message %s" % (k, mark), ops
            if c > 1:
                return "duplicate", "node %d delivers acknowledged message %s %d times" % (k, mark, c), ops
        dup = [m for m in set(marks) if marks.count(m) > 1]
        if dup:
            return "duplicate", "node %d delivers %s %d times" % (k, dup[0], marks.count(dup[0])), ops
        for who in "ac":
            mine = [m for m in marks if m.startswith("m-%s-" % who)]
            if mine != sorted(mine):
                return "reorder", "node %d delivers the messages of one sender out of posting order: %s" % (k, mine[:10]), ops
    base = streams[0]
    for k, st in enumerate(streams[1:], 1):
        if st != base:
            j = next((x for x in range(min(len(st), len(base))) if st[x] != base[x]), min(len(st), len(base)))
            return "diverge", "nodes 0 and %d deliver different sequences to the same session (first difference at message %d: %r / %r)" % (
                k, j, base[j][:3] if j < len(base) else None, st[j][:3] if j < len(st) else None), ops
    return None


def check(run):
    proved = run.prove()
    ok, exe, out = api_run.build()
    run.obligation("go harness builds from /repo (package main: raft + api.HTTP)", ok, out)
    if not ok:
        run.violation("broken:harness-build", "the Go harness no longer builds against /repo", {"log": out[-2000:]}, False)
        return run.finish()
    nscen, length = (3, 30) if run.tier == "quick" else (40, 60)
    bad, evals, nacked, nfaults = None, 0, 0, 0
    for _ in range(nscen):
        ops, posts, reads = single_scenario(run.rng, length)
        gl, err = run_single(exe, ops)
        evals += len(ops)
        if err or len(gl) != len(ops):
            bad = bad or ("harness", err or "output has %d lines for %d ops" % (len(gl), len(ops)), ops)
            continue
        nacked += sum(1 for (i, w, m) in posts if kv(gl[i]).get("status") == "200")
        nfaults += sum(1 for o in ops if o.split()[0] in ("kill", "restart", "snapshot"))
        b = judge_single(ops, posts, reads, gl)
        if b:
            bad = bad or b
    run.obligation("single node (in-process raft, LevelDB, snapshots): %d scenarios, %d acknowledged messages, %d kills/restarts/snapshots; every acknowledged message delivered exactly once, in order" % (nscen, nacked, nfaults),
                   bad is None, bad[1] if bad else "")
    # fail-over to a node that lags behind the client's position (HTTP level, shared with C04)
    import C04
    hbad, hn = C04.http_stage(run)
    run.obligation("resume on a lagging node after fail-over: exactly the messages after lastseen (%d resumes)" % hn, hbad is None, hbad[1] if hbad else "")
    if hbad and not bad:
        bad = ("harness" if hbad[0] == "harness" else "resume-" + hbad[0], hbad[1], hbad[2])
    # slow disk: the commit of a POST takes longer than the handler's timeout; whatever the client is told, a
    # retry with the same id must not lead to a second delivery (run when the ack-after-commit facts changed,
    # and in the thorough tier: it takes 12 s)
    if (not proved or run.tier == "thorough") and not bad:
        sops = list(api_run.BOOT) + ["create a", "create b"]
        k = 10
        for who, nick in (("a", "alice"), ("b", "bob")):
            for text in ("NICK " + nick, "USER u 0 * :real", "JOIN #c"):
                k += 1
                sops.append("post %s ok %d %s" % (who, k, hx(text)))
        sops += ["stall 10600", "post a ok 50 " + hx("PRIVMSG #c :m-a-0001"), "post a ok 50 " + hx("PRIVMSG #c :m-a-0001"), "sleep 1500", "get b ok 0.0"]
        sl, serr = api_run.run_ops(exe, sops, tag="c05s", timeout=120)
        evals += len(sops)
        if serr or len(sl) != len(sops):
            bad = ("harness", serr or "short output", sops)
        else:
            cnt = [payload(t) for (i, r, t) in texts_of(sl[-1])].count("m-a-0001")
            run.obligation("slow commit (raft log write stalls 10.6 s): the POST and its retry lead to exactly one delivery (answers: %s / %s)" % (kv(sl[-4]).get("status"), kv(sl[-3]).get("status")), cnt == 1, "delivered %d times" % cnt)
            if cnt != 1:
                bad = ("slow-commit", "a POST whose commit was slow was answered %s, its retry %s, and the message was delivered %d times" % (kv(sl[-4]).get("status"), kv(sl[-3]).get("status"), cnt), sops)
    # three nodes of real binaries
    nbad, nnet, nlen = None, (1 if run.tier == "quick" else 4), (14 if run.tier == "quick" else 45)
    okn, nexe, bindir, nout = build_net(run)
    run.obligation("robustirc / robustirc-bridge binaries and the network harness build from /repo and the module cache", okn, nout)
    net_acked = net_faults = 0
    if okn:
        for _ in range(nnet):
            ops, posts, finals = net_scenario(run.rng, nlen)
            ops = resolve_killleader(ops)
            # indices moved: recompute from the markers
            posts = [(i, o.split()[1], bytes.fromhex(o.split()[4]).decode().split(":", 1)[1]) for i, o in enumerate(ops) if o.startswith("post ") and "m-" in bytes.fromhex(o.split()[4]).decode("utf-8", "replace")]
            finals = [i for i, o in enumerate(ops) if o.startswith("get b ")]
            gl, err = run_net(nexe, bindir, ops, timeout=600)
            evals += len(ops)
            if gl is None or err or len(gl) != len(ops):
                nbad = nbad or ("harness", err or "output has %d lines for %d ops" % (len(gl or []), len(ops)), ops)
                continue
            net_acked += sum(1 for (i, w, m) in posts if kv(gl[i]).get("acked") == "1")
            net_faults += sum(1 for o in ops if o.split()[0] in ("kill", "restart", "snapshot"))
            b = judge_net(ops, posts, finals, gl)
            if b:
                nbad = nbad or b
        run.obligation("three-node network of real robustirc processes: %d scenarios, %d acknowledged messages, %d kills/restarts/snapshots; every node delivers every acknowledged message exactly once, in order, and all nodes the same sequence" % (nnet, net_acked, net_faults),
                       nbad is None, nbad[1] if nbad else "")
    # the store contract the composition rests on (C09's differential, reduced): FSM.Snapshot / Persist / Restore read the log
    # copy through FirstIndex / LastIndex / GetLog / GetBulkIterator and compact it with DeleteRange
    import C09
    sok, scorr, sbad, sops, sdi, _ = C09.store_stage(run, 60 if run.tier == "quick" else 600, 40, 4, "store contract under the log copy (reduced C09 differential incl. the bulk iterator Persist reads with)")
    evals += len(sops)
    if sbad:
        run.violation("oracle:store:" + sbad[0].split(" ")[0], sbad[0], {"kind": "store", "ops": sbad[1], "why": sbad[0]}, True)
    elif sok and not scorr and not bad and not nbad:
        run.violation("broken:store-correspondence", "the log store no longer behaves like its model", {"kind": "store", "ops": sops[:sdi + 1][-40:] if sdi is not None else [], "why": "store correspondence"}, False)
    for b, kind in ((bad, "api"), (nbad, "net")):
        if b:
            sig, why, rops = b
            if sig == "harness":
                run.violation("broken:%s-harness" % kind, why, {"kind": kind, "ops": rops, "why": why}, False)
            else:
                run.violation("oracle:%s:%s" % (kind, sig), why, {"kind": kind, "ops": rops, "why": why}, True)
    if not bad and not nbad and not proved:
        failed = [o[0] for o in run.failed_obligations()]
        run.violation("broken:" + (failed[0] if failed else "?")[:40], "proof obligations no longer check: %s" % failed, {"broken": failed, "detail": [o[2][-1500:] for o in run.failed_obligations()]}, False)
    run.samples = [{"acked_single": nacked, "acked_net": net_acked}]
    run.coverage.update({"evaluations": evals, "distinct_nontrivial": nscen + nnet, "traces_validated_against_impl": nscen + nnet if not bad and not nbad else 0,
                         "acknowledged_messages": nacked + net_acked, "faults": nfaults + net_faults})
    run.assumptions += ["hashicorp/raft: log matching and leader completeness (a committed entry is in the log of every later leader); the composition theorem takes `commits are prefixes of one log` as its hypothesis",
                        "clients retry a POST with the same ClientMessageId (the protocol); an unanswered POST may or may not have been applied",
                        "in the in-process harness compaction is forced by moving the compaction clock (canary flag), after the reader has caught up"]
    return run.finish(rule="fault schedules (SIGKILL, restart, snapshot, forced compaction, leader kill) x posting/retrying clients; single node in process on every run, three real processes (internal/localnet) on every run with a short schedule and longer ones in the thorough tier; oracle: acknowledged => delivered exactly once, per-sender order, identical sequences on all nodes")


def replay(run, path):
    import json
    r = json.load(open(path))
    rp = r.get("replay", {})
    ops = rp.get("ops", [])
    if rp.get("kind") == "store":
        import C09
        return C09.replay(run, path)
    if rp.get("kind") == "net":
        okn, nexe, bindir, nout = build_net(run)
        gl, err = run_net(nexe, bindir, ops, timeout=600)
    else:
        ok, exe, out = api_run.build()
        gl, err = run_single(exe, ops)
    for o, g in zip(ops, gl or []):
        print("%-60s %s" % (o[:60], g[:200]))
    print("error:", err)
    return 0
