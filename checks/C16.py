"""C16: only valid current-revision config updates take effect, the same on all nodes."""
import itertools
import vlib
import api_run
from api_run import hx, PW, kv

VALID = ['SessionExpiration = "30m0s"\nMaxChannels = %d\n[IRC]\n[[IRC.Operators]]\nName = "op%d"\nPassword = "pw"\n',
         'SessionExpiration = "10m0s"\nPostMessageCooloff = "0s"\nMaxSessions = %d\n[TrustedBridges]\n"k%d" = "bridge"\n']
INVALID = 'this is = not [ valid toml'


def canon_cfg(t):
    """GET /config renders nil and empty strings / lists / tables differently (`X = ""`, `Operators = []`, `[Banned]`
    vs nothing): the same configuration.  Parse the TOML and drop empty values."""
    import tomllib

    def norm(v):
        if isinstance(v, dict):
            d = {k: norm(x) for k, x in v.items()}
            return {k: x for k, x in d.items() if x not in ("", [], {}, None)}
        if isinstance(v, list):
            return [norm(x) for x in v]
        return v
    try:
        d = norm(tomllib.loads(t))
    except Exception:
        return t
    out = []

    def emit(pfx, v):
        if isinstance(v, dict):
            for k in sorted(v):
                emit(pfx + [k], v[k])
        else:
            out.append("%s = %r" % (".".join(pfx), v))
    emit([], d)
    return "\n".join(out)


def diffline(a, b):
    la, lb = a.splitlines(), b.splitlines()
    for x, y in zip(la, lb):
        if x != y:
            return x, y
    return (la[len(lb):] or [""])[0], (lb[len(la):] or [""])[0]


def scenario(rng, kinds):
    """kinds: sequence over {valid, invalid, stale, future, nohdr}"""
    ops = ["start", "postconfig %s 0 %s" % (PW, hx('PostMessageCooloff = "0s"\n')), "create a", "post a ok 1 " + hx("NICK oper"), "post a ok 2 " + hx("USER u 0 * :r")]
    rev = 1
    expect = []    # (index, accepted?, expected revision afterwards)
    n = 0
    for k in kinds:
        n += 1
        body = VALID[n % 2] % (n, n)
        if k == "valid":
            ops.append("postconfig %s %d %s" % (PW, rev, hx(body)))
            rev += 1
            expect.append((len(ops) - 1, True, rev, body))
        elif k == "invalid":
            ops.append("postconfig %s %d %s" % (PW, rev, hx(INVALID)))
            expect.append((len(ops) - 1, False, rev, None))
        elif k == "stale":
            ops.append("postconfig %s %d %s" % (PW, rev - 1, hx(body)))
            expect.append((len(ops) - 1, False, rev, None))
        elif k == "future":
            ops.append("postconfig %s %d %s" % (PW, rev + 1, hx(body)))
            expect.append((len(ops) - 1, False, rev, None))
        elif k == "nohdr":
            ops.append("postconfig %s - %s" % (PW, hx(body)))
            expect.append((len(ops) - 1, False, rev, None))
        ops.append("getconfig " + PW)
        r = rng.random()
        if r < 0.2:
            ops.append("post a ok %d %s" % (100 + n, hx("PRIVMSG #x :traffic")))
        elif r < 0.3:
            ops += ["snapshot 7200", "restart", "getconfig " + PW]
        elif r < 0.35:
            ops += ["kill", "getconfig " + PW]
    ops += ["snapshot 7200", "restart", "getconfig " + PW, "dump"]
    return ops, expect, rev


def check(run):
    proved = run.prove()
    ok, exe, out = api_run.build()
    run.obligation("go harness builds from /repo (package main: raft + api.HTTP)", ok, out)
    if not ok:
        run.violation("broken:harness-build", "the Go harness no longer builds against /repo", {"log": out[-2000:]}, False)
        return run.finish()
    alphabet = ["valid", "invalid", "stale", "future", "nohdr"]
    if run.tier == "quick":
        seqs = [list(s) for s in itertools.product(alphabet, repeat=2)] + [["valid", "stale", "valid", "invalid", "future", "valid"]]
        seqs = run.rng.sample(seqs, 8) + [["valid", "stale", "valid", "invalid", "future", "valid"]]
    else:
        seqs = [list(s) for n in (1, 2, 3, 4) for s in itertools.product(alphabet[:4], repeat=n)]
    bad, evals, decisions = None, 0, []
    for kinds in seqs:
        ops, expect, rev = scenario(run.rng, kinds)
        gl, err = api_run.run_ops(exe, ops, tag="c16")
        evals += len(ops)
        if err or len(gl) != len(ops):
            bad = bad or ("harness", err or "output has %d lines for %d ops" % (len(gl), len(ops)), ops)
            continue
        for (i, accepted, want_rev, body) in expect:
            r = kv(gl[i])
            g = kv(gl[i + 1])
            if accepted and (r.get("status") != "200" or r.get("newentries") != "1"):
                bad = bad or ("rejected", "valid current-revision update was not accepted: %s" % gl[i], ops[:i + 2])
            if not accepted and (r.get("status") == "200" or r.get("newentries") != "0"):
                bad = bad or ("accepted", "update that must be rejected (%s) took effect: %s" % (ops[i].split()[2], gl[i]), ops[:i + 2])
            if g.get("rev") != str(want_rev):
                bad = bad or ("revision", "revision after `%s` is %s, expected %d" % (ops[i][:40], g.get("rev"), want_rev), ops[:i + 2])
            if accepted and body:
                cur = bytes.fromhex(g.get("body", "")).decode("utf-8", "replace")
                marker = body.split("\n")[1].split(" = ")[0]
                want_line = body.split("\n")[1]
                if want_line not in cur:
                    bad = bad or ("content", "accepted configuration is not in force: %r not in GET /config" % want_line, ops[:i + 2])
            cur_rev = int(ops[i].split()[2]) if ops[i].split()[2] != "-" else None
            valid = 0 if hx(INVALID) == ops[i].split()[3] else 1
            decisions.append(("config %d %s %d" % (want_rev - (1 if accepted else 0), "-" if cur_rev is None else str(cur_rev), valid), gl[i], ops[i]))
        # every later GET /config (after traffic, snapshot+restore, kill) shows the same revision as the last one before
        last = None
        for o, g in zip(ops, gl):
            if o.startswith("postconfig"):
                last = None
            if o.startswith("getconfig"):
                rv = kv(g).get("rev")
                if last is not None and rv != last:
                    bad = bad or ("lost", "configuration revision changed from %s to %s without a config update (after restart/restore)" % (last, rv), ops)
                last = rv
    # allowed origins are configuration too: they must survive snapshot + restore like everything else
    oops = ["start", "postconfig %s 0 %s" % (PW, hx('PostMessageCooloff = "0s"\n[WhitelistedOrigins]\n"https://webchat.example.com" = true\n')), "getconfig " + PW,
            "create a", "snapshot 7200", "restart", "getconfig " + PW]
    gl, err = api_run.run_ops(exe, oops, tag="c16o")
    evals += len(oops)
    if not err and len(gl) == len(oops):
        before = bytes.fromhex(kv(gl[2]).get("body", "")).decode("utf-8", "replace")
        after = bytes.fromhex(kv(gl[6]).get("body", "")).decode("utf-8", "replace")
        if "webchat.example.com" in before and "webchat.example.com" not in after:
            run.violation("oracle:origins-lost", "the posted WhitelistedOrigins are shown by GET /config before snapshot+restore and gone afterwards",
                          {"kind": "api", "ops": oops, "before": before[-200:], "after": after[-200:]}, True)
        elif "webchat.example.com" not in before:
            bad = bad or ("content", "posted WhitelistedOrigins not shown by GET /config", oops)
        elif canon_cfg(before) != canon_cfg(after):
            bad = bad or ("restore-differs", "GET /config differs before and after snapshot+restore at the same revision: %r / %r" % (diffline(canon_cfg(before), canon_cfg(after))), oops)
    # every configuration value must survive snapshot + restore, zero values and empty tables included; and a ban
    # set by GLINE belongs to the configuration in force: a later accepted update without bans removes it
    cfgA = 'SessionExpiration = "0s"\nPostMessageCooloff = "3ms"\nMaxSessions = 0\n[IRC]\n[[IRC.Operators]]\nName = "op"\nPassword = "secret"\n'
    cfgB = 'SessionExpiration = "10m0.5s"\nPostMessageCooloff = "0s"\n[IRC]\n[[IRC.Operators]]\nName = "op"\nPassword = "secret"\n'
    gops = ["start", "postconfig %s 0 %s" % (PW, hx(cfgA)),
            "create o", "create v", "post v ok 1 " + hx("NICK victim"), "post v ok 2 " + hx("USER u 0 * :r"), "post o ok 1 " + hx("NICK oper"), "post o ok 2 " + hx("USER u 0 * :r"),
            "post o ok 3 " + hx("OPER op secret"), "getconfig " + PW, "snapshot 7200", "restart", "getconfig " + PW,
            "postconfig %s 1 %s" % (PW, hx(cfgA)),                      # the configuration in force now comes from a Config entry, not from a restore
            "getconfig " + PW,                                          # read at this revision before the GLINE: the next read must still show the ban
            "post o ok 4 " + hx("GLINE victim :spam"), "getconfig " + PW,
            "postconfig %s 2 %s" % (PW, hx(cfgB)), "getconfig " + PW,
            "restart", "getconfig " + PW]
    gl, err = api_run.run_ops(exe, gops, tag="c16g")
    evals += len(gops)
    if err or len(gl) != len(gops):
        bad = bad or ("harness", err or "short output", gops)
    else:
        body = lambda i: canon_cfg(bytes.fromhex(kv(gl[i]).get("body", "")).decode("utf-8", "replace"))
        c1, c2, c3, c4, c5 = body(9), body(12), body(16), body(18), body(20)
        if c1 != c2:
            bad = bad or ("restore-differs", "GET /config differs before and after snapshot+restore at the same revision: %r / %r" % (diffline(c1, c2)), gops[:13])
        elif "spam" not in c3:
            bad = bad or ("gline", "the ban set by GLINE is not part of the configuration (GET /config)", gops[:17])
        elif kv(gl[17]).get("status") != "200":
            bad = bad or ("rev-after-gline", "a config update naming the current revision was refused after a GLINE: %s" % gl[17], gops[:18])
        elif "spam" in c4:
            bad = bad or ("stale-ban", "an accepted configuration without bans took effect, but a ban of the previous configuration is still in force", gops[:19])
        elif c4 != c5:
            bad = bad or ("restore-differs", "GET /config differs before and after a restart at the same revision: %r / %r" % (diffline(c4, c5)), gops)
    # the configuration in force decides what the node does, not what it answered under an earlier revision: the CORS grant
    # follows WhitelistedOrigins of the current revision, on the node that served requests all along and after a restart alike
    oa, ob, oc = "https://a.example", "https://b.example", "https://c.example"
    base = 'SessionExpiration = "10m0s"\nPostMessageCooloff = "0s"\n[IRC]\n'
    cfg1 = base + '[WhitelistedOrigins]\n"%s" = true\n"%s" = false\n' % (oa, ob)
    cfg2 = base + '[WhitelistedOrigins]\n"%s" = true\n' % ob
    eops = ["start", "postconfig %s 0 %s" % (PW, hx(cfg1)), "origin " + hx(oa), "origin " + hx(ob), "origin " + hx(oc),
            "postconfig %s 1 %s" % (PW, hx(cfg2)), "origin " + hx(oa), "origin " + hx(ob), "origin " + hx(oc),
            "snapshot 7200", "restart", "origin " + hx(oa), "origin " + hx(ob), "origin " + hx(oc)]
    gl, err = api_run.run_ops(exe, eops, tag="c16e")
    evals += len(eops)
    if err or len(gl) != len(eops):
        bad = bad or ("harness", err or "short output", eops)
    else:
        granted = lambda i: kv(gl[i]).get("acao", "-") != "-"
        want = {2: True, 3: False, 4: False, 6: False, 7: True, 8: False, 11: False, 12: True, 13: False}
        for i in sorted(want):
            if granted(i) != want[i]:
                bad = bad or ("effect-origin", "after `%s` a request with Origin %s was %s; the configuration in force (revision %d) says %s" % (
                    "restart" if i > 10 else eops[5 if i > 5 else 1][:24], bytes.fromhex(eops[i].split()[1]).decode(), "granted" if granted(i) else "not granted", 1 if i < 5 else 2,
                    "granted" if want[i] else "not granted"), eops[:i + 1])
                break
        run.obligation("effects follow the configuration in force: CORS grants under two revisions and after snapshot+restart (9 probes)", not (bad and bad[0] == "effect-origin"), bad[1] if bad and bad[0] == "effect-origin" else "")
    if decisions:
        ll, lerr = api_run.lean_decisions([d[0] for d in decisions])
        mism = None
        for (line, g, op), l in zip(decisions, ll):
            gs, ls = kv(g), kv(l)
            if gs.get("status") != ls.get("status") or gs.get("newentries") != ls.get("proposes"):
                mism = mism or "`%s`: go %s, model %s (%s)" % (op[:50], g, l, line)
        run.obligation("correspondence: handlePostConfig decisions == Lean model on %d posts" % len(decisions), mism is None and not lerr, mism or lerr or "")
        if (mism or lerr) and bad is None:
            run.violation("broken:correspondence", "handler decisions differ from the model: %s" % (mism or lerr), {"detail": mism or lerr}, False)
    if bad:
        sig, why, rops = bad
        run.violation("oracle:" + sig, why, {"kind": "api", "ops": rops, "why": why}, True)
    elif not proved:
        failed = [o[0] for o in run.failed_obligations()]
        run.violation("broken:" + (failed[0] if failed else "?")[:40], "proof obligations no longer check: %s" % failed, {"broken": failed, "detail": [o[2][-1500:] for o in run.failed_obligations()]}, False)
    run.samples = [{"sequence": s} for s in seqs[:4]]
    run.coverage.update({"evaluations": evals, "distinct_nontrivial": len(seqs), "traces_validated_against_impl": len(decisions), "exhaustive": run.tier == "thorough",
                         "sequences": len(seqs)})
    run.assumptions += ["configuration posts are issued one after another (the property's quantifier; the revision test is check-then-act)", "BurntSushi/toml decides what parses"
                        ]
    return run.finish(rule="sequences over {valid, invalid TOML, stale, future, missing revision header} interleaved with traffic, snapshot+restart and SIGKILL on the real handlers; oracle: accepted iff valid and current, revision +1, GET /config shows the posted content, rejected posts append nothing, revision stable across restore; thorough: all sequences of length <= 4")


def replay(run, path):
    import json
    r = json.load(open(path))
    ops = r.get("replay", {}).get("ops", [])
    ok, exe, out = api_run.build()
    gl, err = api_run.run_ops(exe, ops, tag="c16r")
    for o, g in zip(ops, gl):
        print("%-70s %s" % (o[:70], g[:100]))
    print(err)
    return 0
